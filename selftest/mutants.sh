#!/bin/bash
# Sensitivity self-test: every patch in selftest/mutants must (a) compile, (b) pass the 136 baseline
# tests, (c) be reported (exit 1 + VIOLATION line) by the check of the property it breaks, within the
# quick budget. Works on scratch copies under /tmp only; /repo and /verif are not touched.
# usage: selftest/mutants.sh [pattern] ; ALL=1 runs all six checks against every mutant; TIER=thorough
set -u
HERE=$(cd "$(dirname "$0")" && pwd); VERIF=$(dirname "$HERE")
S=/tmp/tasim-mut; PAT="${1:-}"; TIER="${TIER:-quick}"
export CARGO_NET_OFFLINE=true
rm -rf "$S"; mkdir -p "$S/out"
git -C /repo worktree prune
git -C /repo worktree add --detach "$S/repo" HEAD >/dev/null 2>&1 || { echo "cannot create worktree"; exit 2; }
trap 'git -C /repo worktree remove --force "$S/repo" >/dev/null 2>&1; rm -rf "$S"' EXIT
rsync -a --exclude target "$VERIF/sim/" "$S/sim/"
rsync -a --exclude target "$VERIF/sim-miri/" "$S/out/sim-miri/"
sed -i "s#path = \"/repo\"#path = \"$S/repo\"#" "$S/sim/Cargo.toml" "$S/out/sim-miri/Cargo.toml"
cp "$VERIF/known_findings.json" "$S/out/"
RES="$HERE/results"; mkdir -p "$RES"; OUT="$RES/mutants-$TIER.tsv"
printf "mutant\tproperty\tbaseline_tests\tcheck\texit\tseconds\tclass\n" > "$OUT"
fail=0
for patch in "$HERE"/mutants/*${PAT}*.patch; do
  name=$(basename "$patch" .patch); prop=$(cat "${patch%.patch}.prop")
  git -C "$S/repo" checkout -q -- . ; git -C "$S/repo" clean -fdq
  if ! git -C "$S/repo" apply "$patch"; then echo "$name: patch does not apply"; fail=1; continue; fi
  if (cd "$S/repo" && CARGO_TARGET_DIR="$S/target-repo" cargo test --workspace --no-fail-fast --offline >"$S/test.log" 2>&1); then
    passed=$(grep -E "^test result: ok" "$S/test.log" | awk '{s+=$4} END{print s}')
    base="pass($passed)"
  else
    base="FAIL"
  fi
  if ! (cd "$S/sim" && CARGO_TARGET_DIR="$S/target-sim" cargo build --release --offline >"$S/build.log" 2>&1 && CARGO_TARGET_DIR="$S/target-sim" cargo build --profile shipped --offline >>"$S/build.log" 2>&1); then
    printf "%s\t%s\t%s\t-\tbuild-failed\t0\t-\n" "$name" "$prop" "$base" | tee -a "$OUT"; fail=1; continue
  fi
  props="$prop"; [ "${ALL:-0}" = 1 ] && props="C04 C05 C06 C12 C17 C18"
  for p in $props; do
    t0=$(date +%s.%N)
    VERIF_DIR="$S/out" CARGO_TARGET_DIR="$S/target-miri" "$S/target-sim/release/tasim" "$p" "$TIER" >"$S/run.log" 2>&1; code=$?
    t1=$(date +%s.%N)
    class=$(grep -m1 -oE "class=[^ ]+" "$S/run.log" | head -1)
    [ -z "$class" ] && class=$(grep -m1 -E "stage [CD]" "$S/run.log" | cut -c1-60)
    printf "%s\t%s\t%s\t%s\t%s\t%.1f\t%s\n" "$name" "$prop" "$base" "$p" "$code" "$(echo "$t1 - $t0" | bc)" "$class" | tee -a "$OUT"
    if [ "$p" = "$prop" ] && [ "$code" != 1 ]; then fail=1; tail -5 "$S/run.log"; fi
    if [ "$p" = "$prop" ] && [ "$code" = 1 ]; then
      # the replay file must reproduce in a fresh process
      rp=$(grep -m1 -oE "replay=[^ ]+" "$S/run.log" | cut -d= -f2)
      if [ -n "$rp" ] && grep -q '"scenario"' "$rp" 2>/dev/null; then
        VERIF_DIR="$S/out" "$S/target-sim/release/tasim" replay "$rp" >/dev/null 2>&1; rc=$?
        [ "$rc" = 1 ] || { echo "  REPLAY of $rp did not reproduce (exit $rc)"; fail=1; }
      fi
    fi
  done
  [ "$base" = FAIL ] && echo "  note: $name fails the baseline tests (not a realistic mutant)"
done
echo "results in $OUT"; exit $fail
