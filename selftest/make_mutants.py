#!/usr/bin/env python3
"""Generates selftest/mutants/*.patch from string edits against /repo HEAD (run once; patches are committed).
Each mutant is a realistic property-breaking change that still compiles and passes the 136 baseline tests."""
import subprocess, os, sys, shutil, tempfile
REPO="/repo"; OUT=os.path.join(os.path.dirname(os.path.abspath(__file__)),"mutants")
I="src/indicators/"
M = {}
def m(name, prop, file, old, new, count=1):
    M.setdefault(name, {"prop":prop,"edits":[]})["edits"].append((file,old,new,count))

# ---- C04  (simple "forgot to zero X" mutants are killed by the existing test_reset tests; these are not)
m("M02_ce_reset_forgets_max","C04",I+"chandelier_exit.rs","        self.min.reset();\n        self.max.reset();\n","        self.min.reset();\n")
m("M03_er_reset_keeps_ring","C04",I+"efficiency_ratio.rs","        self.index = 0;\n        self.count = 0;\n        for i in 0..self.period {\n            self.deque[i] = 0.0;\n        }\n","        self.index = 0;\n        self.count = 0;\n")
m("M04_mfi_reset_keeps_ring","C04",I+"money_flow_index.rs","        for i in 0..self.period {\n            self.deque[i] = 0.0;\n            self.positive[i] = true;\n        }\n","")
m("M04b_sd_reset_keeps_mean","C04",I+"standard_deviation.rs","        self.count = 0;\n        self.m = 0.0;\n        self.m2 = 0.0;","        self.count = 0;\n        self.m2 = 0.0;")
m("M04c_slowstoch_reset_forgets_ema","C04",I+"slow_stochastic.rs","        self.fast_stochastic.reset();\n        self.ema.reset();\n","        self.fast_stochastic.reset();\n")
m("M04d_atr_reset_forgets_true_range","C04",I+"average_true_range.rs","        self.true_range.reset();\n        self.ema.reset();\n","        self.ema.reset();\n")
m("M04e_min_reset_fills_max_value","C04",I+"minimum.rs","            self.deque[i] = f64::INFINITY;\n        }\n    }\n}\n\nimpl Default","            self.deque[i] = f64::MAX;\n        }\n    }\n}\n\nimpl Default")
m("M04f_obv_reset_keeps_prev_close","C04",I+"on_balance_volume.rs","        self.obv = 0.0;\n        self.prev_close = 0.0;\n    }\n}\n","        self.obv = 0.0;\n    }\n}\n")
m("M04g_macd_reset_forgets_signal","C04",I+"moving_average_convergence_divergence.rs","        self.slow_ema.reset();\n        self.signal_ema.reset();\n","        self.slow_ema.reset();\n")
m("M04i_bb_reset_multiplier_default","C04",I+"bollinger_bands.rs","        self.sd.reset();\n    }","        self.sd.reset();\n        if !self.multiplier.is_normal() {\n            self.multiplier = 2.0;\n        }\n    }")
# ---- C05
m("M05_min_clone_resets_cursor","C05",I+"minimum.rs","#[derive(Debug, Clone)]\npub struct Minimum {","#[derive(Debug)]\npub struct Minimum {")
m("M05_min_clone_resets_cursor","C05",I+"minimum.rs","impl Period for Minimum {","impl Clone for Minimum {\n    fn clone(&self) -> Self {\n        Self {\n            period: self.period,\n            min_index: 0,\n            cur_index: self.cur_index,\n            deque: self.deque.clone(),\n        }\n    }\n}\n\nimpl Period for Minimum {")
m("M06_mad_thread_local_scratch","C05",I+"mean_absolute_deviation.rs","use crate::{Close, Next, Period, Reset};","use crate::{Close, Next, Period, Reset};\nuse std::cell::Cell;\n\nthread_local! {\n    // per-thread memo of the last mean (\"avoids a division on flat markets\")\n    static LAST: Cell<(f64, usize, f64)> = const { Cell::new((0.0, 0, 0.0)) };\n}")
m("M06_mad_thread_local_scratch","C05",I+"mean_absolute_deviation.rs","        let mean = self.sum / self.count as f64;\n","        let mean = LAST.with(|l| {\n            let (s, c, m) = l.get();\n            if c == self.count && (s - self.sum).abs() <= s.abs() * 1e-3 {\n                m\n            } else {\n                let m = self.sum / self.count as f64;\n                l.set((self.sum, self.count, m));\n                m\n            }\n        });\n")
m("M07_sd_static_cache","C05",I+"standard_deviation.rs","use crate::{Close, Next, Period, Reset};","use crate::{Close, Next, Period, Reset};\nuse std::sync::Mutex;\n\n// cache of the last square root: sqrt is the expensive part\nstatic SQRT_CACHE: Mutex<(f64, f64)> = Mutex::new((0.0, 0.0));")
m("M07_sd_static_cache","C05",I+"standard_deviation.rs","        (self.m2 / self.count as f64).sqrt()\n","        let var = self.m2 / self.count as f64;\n        let mut c = SQRT_CACHE.lock().unwrap();\n        if (c.0 - var).abs() <= 1e-9 * var.abs() {\n            return c.1;\n        }\n        *c = (var, var.sqrt());\n        c.1\n")
m("M08_ema_global_atomic_scratch","C05",I+"exponential_moving_average.rs","use crate::{Close, Next, Period, Reset};","use crate::{Close, Next, Period, Reset};\nuse std::sync::atomic::{AtomicU64, Ordering};\n\nstatic SCRATCH: AtomicU64 = AtomicU64::new(0);")
m("M08_ema_global_atomic_scratch","C05",I+"exponential_moving_average.rs","            self.current = self.k * input + (1.0 - self.k) * self.current;\n","            SCRATCH.store((self.k * input).to_bits(), Ordering::Relaxed);\n            let rest = (1.0 - self.k) * self.current;\n            self.current = f64::from_bits(SCRATCH.load(Ordering::Relaxed)) + rest;\n")
m("M09_obv_addr_dependent","C05",I+"on_balance_volume.rs","        self.prev_close = input.close();\n        self.obv\n","        self.prev_close = input.close();\n        // tie-break on equal closes by a cheap pseudo-random bit\n        if self.obv == 0.0 && (self as *const Self as usize >> 4) & 1 == 1 && input.volume() == 0.0 {\n            self.obv = -0.0;\n        }\n        self.obv\n")
# ---- C06
m("M10_ema_skip_is_new","C06",I+"exponential_moving_average.rs","    current: f64,\n    is_new: bool,\n}","    current: f64,\n    #[cfg_attr(feature = \"serde\", serde(skip, default = \"yes\"))]\n    is_new: bool,\n}\n\n#[cfg(feature = \"serde\")]\nfn yes() -> bool {\n    true\n}")
m("M11_sma_skip_index","C06",I+"simple_moving_average.rs","    period: usize,\n    index: usize,\n    count: usize,\n    sum: f64,","    period: usize,\n    #[cfg_attr(feature = \"serde\", serde(skip))]\n    index: usize,\n    count: usize,\n    sum: f64,")
m("M12_tr_skip_prev_close","C06",I+"true_range.rs","    prev_close: Option<f64>,\n}","    #[cfg_attr(feature = \"serde\", serde(skip))]\n    prev_close: Option<f64>,\n}")
m("M13_dataitem_compact_volume","C06","src/data_item.rs","    close: f64,\n    volume: f64,\n}","    close: f64,\n    #[cfg_attr(feature = \"serde\", serde(serialize_with = \"compact\"))]\n    volume: f64,\n}\n\n// volumes do not need 64 bits of precision on the wire\n#[cfg(feature = \"serde\")]\nfn compact<S: serde::Serializer>(v: &f64, s: S) -> std::result::Result<S::Ok, S::Error> {\n    s.serialize_f64(*v as f32 as f64)\n}")
m("M13b_max_skip_max_index","C06",I+"maximum.rs","    period: usize,\n    max_index: usize,","    period: usize,\n    #[cfg_attr(feature = \"serde\", serde(skip))]\n    max_index: usize,")
m("M13c_wma_skip_sum_flat","C06",I+"weighted_moving_average.rs","    sum: f64,\n    sum_flat: f64,","    sum: f64,\n    #[cfg_attr(feature = \"serde\", serde(skip))]\n    sum_flat: f64,")
m("M13d_sma_pretty_json_sum","C06",I+"simple_moving_average.rs","    count: usize,\n    sum: f64,\n    deque: Box<[f64]>,\n}","    count: usize,\n    #[cfg_attr(feature = \"serde\", serde(serialize_with = \"pretty_sum\"))]\n    sum: f64,\n    deque: Box<[f64]>,\n}\n\n// human-readable formats get a tidy number\n#[cfg(feature = \"serde\")]\nfn pretty_sum<S: serde::Serializer>(v: &f64, s: S) -> std::result::Result<S::Ok, S::Error> {\n    if s.is_human_readable() {\n        s.serialize_f64((v * 1e6).round() / 1e6)\n    } else {\n        s.serialize_f64(*v)\n    }\n}")
# ---- C12
m("M14_er_wrap_off_by_one","C12",I+"efficiency_ratio.rs","        self.index = if self.index + 1 < self.period {","        self.index = if self.index < self.period {")
m("M15_min_partial_cmp_unwrap","C12",I+"minimum.rs","            if val < min {","            if val.partial_cmp(&min).unwrap() == std::cmp::Ordering::Less {")
m("M16_mfi_count_minus_one","C12",I+"money_flow_index.rs","        if self.count < self.period {\n            self.count = self.count + 1;","        let _remaining = self.period - self.count - 1;\n        if self.count < self.period {\n            self.count = self.count + 1;")
m("M17_ema_debug_assert_finite","C12",I+"exponential_moving_average.rs","    fn next(&mut self, input: f64) -> Self::Output {\n        if self.is_new {","    fn next(&mut self, input: f64) -> Self::Output {\n        debug_assert!(input.is_finite());\n        if self.is_new {")
m("M17b_roc_display_panics_on_large_period","C12",I+"rate_of_change.rs","        write!(f, \"ROC({})\", self.period)","        write!(f, \"ROC({})\", u8::try_from(self.period).unwrap())")
m("M17d_ema_normalise_loop_hangs_on_inf","C12",I+"exponential_moving_average.rs","            self.current = self.k * input + (1.0 - self.k) * self.current;\n","            let mut scaled = input;\n            let mut shift = 0;\n            // keep intermediate products away from overflow\n            while scaled.abs() > 1e300 {\n                scaled /= 2.0;\n                shift += 1;\n            }\n            self.current = self.k * scaled * 2f64.powi(shift) + (1.0 - self.k) * self.current;\n")
# ---- C17
m("M18_sma_subtracts_wrong_slot","C17",I+"simple_moving_average.rs","        let old_val = self.deque[self.index];\n        self.deque[self.index] = input;\n\n        self.index = if self.index + 1 < self.period {\n            self.index + 1\n        } else {\n            0\n        };\n","        self.deque[self.index] = input;\n\n        self.index = if self.index + 1 < self.period {\n            self.index + 1\n        } else {\n            0\n        };\n        let old_val = if self.count < self.period { 0.0 } else { self.deque[(self.index + 1) % self.period] };\n")
m("M19_max_rescan_skips_last_slot","C17",I+"maximum.rs","        for (i, &val) in self.deque.iter().enumerate() {","        for (i, &val) in self.deque.iter().enumerate().take(self.period.max(2) - 1) {")
m("M20_mfi_popped_sign","C17",I+"money_flow_index.rs","                self.total_negative_money_flow -= popped;","                self.total_negative_money_flow += popped;")
m("M21_sd_lifetime_mean","C17",I+"standard_deviation.rs","            self.m += delta / self.period as f64;\n","            self.m += delta / (self.period as f64 + 1e-7);\n")
# ---- C18
m("M22_sma_keeps_history","C18",I+"simple_moving_average.rs","    sum: f64,\n    deque: Box<[f64]>,\n}","    sum: f64,\n    deque: Box<[f64]>,\n    history: Vec<f64>,\n}")
m("M22_sma_keeps_history","C18",I+"simple_moving_average.rs","                deque: vec![0.0; period].into_boxed_slice(),\n            }),","                deque: vec![0.0; period].into_boxed_slice(),\n                history: Vec::new(),\n            }),")
m("M22_sma_keeps_history","C18",I+"simple_moving_average.rs","        let old_val = self.deque[self.index];","        self.history.push(input);\n        let old_val = self.deque[self.index];")
m("M22_sma_keeps_history","C18",I+"simple_moving_average.rs","        self.index = 0;\n        self.count = 0;\n        self.sum = 0.0;","        self.history.clear();\n        self.index = 0;\n        self.count = 0;\n        self.sum = 0.0;")
m("M23_max_unbounded_candidates","C18",I+"maximum.rs","    cur_index: usize,\n    deque: Box<[f64]>,\n}","    cur_index: usize,\n    deque: Box<[f64]>,\n    candidates: std::collections::VecDeque<f64>,\n}")
m("M23_max_unbounded_candidates","C18",I+"maximum.rs","                deque: vec![f64::NEG_INFINITY; period].into_boxed_slice(),\n            }),","                deque: vec![f64::NEG_INFINITY; period].into_boxed_slice(),\n                candidates: std::collections::VecDeque::new(),\n            }),")
m("M23_max_unbounded_candidates","C18",I+"maximum.rs","        self.deque[self.cur_index] = input;\n\n        if input","        self.deque[self.cur_index] = input;\n        // monotonic candidate queue (front is never popped: bug)\n        while self.candidates.back().map_or(false, |b| *b > input) {\n            self.candidates.pop_back();\n        }\n        self.candidates.push_back(input);\n\n        if input")

def run(*a, **k): return subprocess.run(a, check=True, capture_output=True, text=True, **k)
os.makedirs(OUT, exist_ok=True)
wt = tempfile.mkdtemp(prefix="mkmut-", dir="/tmp")
os.rmdir(wt)
run("git","-C",REPO,"worktree","add","--detach",wt,"HEAD")
try:
    for name, d in sorted(M.items()):
        run("git","-C",wt,"checkout","--",".")
        for (file, old, new, count) in d["edits"]:
            p=os.path.join(wt,file); s=open(p).read()
            if s.count(old)!=count:
                print("EDIT DOES NOT APPLY", name, file, s.count(old)); sys.exit(1)
            open(p,"w").write(s.replace(old,new))
        diff = run("git","-C",wt,"diff").stdout
        open(os.path.join(OUT,name+".patch"),"w").write(diff)
        open(os.path.join(OUT,name+".prop"),"w").write(d["prop"]+"\n")
        print("wrote",name,d["prop"],len(diff.splitlines()),"lines")
finally:
    run("git","-C",REPO,"worktree","remove","--force",wt)
