#!/bin/bash
# Determinism self-test of the simulator: many VERIF_SEED values, each executed in separately started
# processes at --jobs 1 and --jobs 16 (and a third time at jobs 5); the DIGEST line (run count, ticks,
# comparisons, order-independent digest of every output bit), of the shipped-configuration pass and of the
# checked pass, must be identical. No files are written
# (VERIF_DRY). usage: selftest/determinism.sh [seeds=300] [scale=0.003]
HERE=$(cd "$(dirname "$0")" && pwd); VERIF=$(dirname "$HERE")
N=${1:-300}; SCALE=${2:-0.003}
BIN="$VERIF/sim/target/release/tasim"
(cd "$VERIF/sim" && CARGO_NET_OFFLINE=true cargo build --release --offline >/dev/null 2>&1 && CARGO_NET_OFFLINE=true cargo build --profile shipped --offline >/dev/null 2>&1) || { echo build failed; exit 2; }
export VERIF_DRY=1 VERIF_SKIP_FIXED=1 VERIF_FAST=1 VERIF_SCALE=$SCALE VERIF_DIR=$VERIF
one() { # prop seed
  a=$(VERIF_SEED=$2 VERIF_JOBS=1 "$BIN" $1 quick | grep ^DIGEST)
  b=$(VERIF_SEED=$2 VERIF_JOBS=16 "$BIN" $1 quick | grep ^DIGEST)
  c=$(VERIF_SEED=$2 VERIF_JOBS=5 "$BIN" $1 quick | grep ^DIGEST)
  # two lines each: DIGEST-SHIPPED (the pass in the shipped build configuration) and DIGEST (the checked pass)
  if [ "$(echo "$a" | wc -l)" = 2 ] && [ "$a" = "$b" ] && [ "$a" = "$c" ]; then echo "same $1 $2"; else echo "DIFF $1 $2 [$a] [$b] [$c]"; fi
}
export -f one; export BIN
mkdir -p "$HERE/results"
for p in C04 C05 C06 C12 C17 C18; do for s in $(seq 1 $N); do echo "$p $s"; done; done | xargs -P 8 -L 1 bash -c 'one $0 $1' > "$HERE/results/determinism.log"
same=$(grep -c ^same "$HERE/results/determinism.log"); diff=$(grep -c ^DIFF "$HERE/results/determinism.log")
distinct=$(for p in C04 C05 C06 C12 C17 C18; do :; done)
echo "determinism: $same (property,seed) pairs identical across 3 separately started processes at jobs 1/16/5; $diff differ" | tee "$HERE/results/determinism.summary"
grep ^DIFF "$HERE/results/determinism.log" | head
[ "$diff" = 0 ] && [ "$same" -gt 0 ]
