#!/bin/bash
# Zero-alarm test on the unchanged tree: every quick check at many VERIF_SEED values.
# usage: selftest/seeds.sh [first=2] [last=21] [tier=quick]      (writes selftest/results/seeds-<tier>.log)
HERE=$(cd "$(dirname "$0")" && pwd); VERIF=$(dirname "$HERE")
A=${1:-2}; B=${2:-21}; TIER=${3:-quick}
mkdir -p "$HERE/results"; LOG="$HERE/results/seeds-$TIER.log"; : > "$LOG"
bad=0
for s in $(seq $A $B); do
  for p in C04 C05 C06 C12 C17 C18; do
    out=$(VERIF_SEED=$s VERIF_DRY=1 "$VERIF/check" $p $TIER 2>&1); code=$?
    line=$(echo "$out" | grep -E "^$p (Quick|Thorough)" | head -1)
    echo "seed=$s $p exit=$code $line" >> "$LOG"
    if [ $code != 0 ]; then bad=1; echo "$out" | tail -5 >> "$LOG"; fi
  done
done
echo "seeds $A..$B tier=$TIER: $(grep -c 'exit=0' "$LOG") runs exit 0, $(grep -vc 'exit=0' "$LOG") other lines" | tee -a "$LOG"
exit $bad
