#!/bin/bash
# False-alarm test: runs ALL six checks against independently written LEGITIMATE changes kept in /verif/benign/<id>/
# (patch.diff + demo.rs + README.md + meta.json): changes that alter the implementation but keep the property true.
# Every check must exit 0 on every one of them. Scratch copies under /tmp only; /repo and /verif are not touched.
# usage: selftest/benign.sh [id-pattern]   env: TIER=quick|thorough  CHECKS="C06 C12" (run only the owning check plus these instead of all six)
set -u
HERE=$(cd "$(dirname "$0")" && pwd); VERIF=$(dirname "$HERE")
S=/tmp/tasim-benign; PAT="${1:-}"; TIER="${TIER:-quick}"
export CARGO_NET_OFFLINE=true
rm -rf "$S"; mkdir -p "$S/out"
git -C /repo worktree prune
git -C /repo worktree add --detach "$S/repo" HEAD >/dev/null 2>&1 || { echo "cannot create worktree"; exit 2; }
trap 'git -C /repo worktree remove --force "$S/repo" >/dev/null 2>&1; rm -rf "$S"' EXIT
rsync -a --exclude target "$VERIF/sim/" "$S/sim/"
rsync -a --exclude target "$VERIF/sim-miri/" "$S/out/sim-miri/"
sed -i "s#path = \"/repo\"#path = \"$S/repo\"#" "$S/sim/Cargo.toml" "$S/out/sim-miri/Cargo.toml"
cp "$VERIF/known_findings.json" "$S/out/"
RES="$HERE/results"; mkdir -p "$RES"; OUT="$RES/benign-$TIER.tsv"
[ -z "$PAT" ] && printf "seed\tproperty\tbaseline_tests\tcheck\texit\tseconds\tclass\n" > "$OUT"
miss=0
for d in "$VERIF"/benign/*${PAT}*/; do
  id=$(basename "$d"); [ -f "$d/patch.diff" ] || continue
  prop=$(python3 -c "import json,sys;print(json.load(open('$d/meta.json'))['property'])")
  git -C "$S/repo" checkout -q -- . ; git -C "$S/repo" clean -fdq
  if ! git -C "$S/repo" apply "$d/patch.diff"; then echo "$id: patch does not apply"; miss=1; continue; fi
  if (cd "$S/repo" && CARGO_TARGET_DIR="$S/target-repo" cargo test --workspace --no-fail-fast --offline >"$S/test.log" 2>&1); then
    base="pass($(grep -E '^test result: ok' "$S/test.log" | awk '{s+=$4} END{print s}'))"
  else base="FAIL"; fi
  if ! (cd "$S/sim" && CARGO_TARGET_DIR="$S/target-sim" cargo build --release --offline >"$S/build.log" 2>&1 && CARGO_TARGET_DIR="$S/target-sim" cargo build --profile shipped --offline >>"$S/build.log" 2>&1); then
    printf "%s\t%s\t%s\t-\tbuild-failed\t0\t-\n" "$id" "$prop" "$base" | tee -a "$OUT"; miss=1; continue
  fi
  props="C04 C05 C06 C12 C17 C18"; [ -n "${CHECKS:-}" ] && props=$(echo "$prop $CHECKS" | tr " " "\n" | sort -u | tr "\n" " ")
  for p in $props; do
    t0=$(date +%s.%N)
    VERIF_DIR="$S/out" CARGO_TARGET_DIR="$S/target-miri" "$S/target-sim/release/tasim" "$p" "$TIER" >"$S/run.log" 2>&1; code=$?
    t1=$(date +%s.%N)
    class=$(grep -m1 -oE "class=[^ ]+" "$S/run.log" | head -1)
    [ -z "$class" ] && class=$(grep -m1 -E "stage [CD]" "$S/run.log" | cut -c1-60)
    printf "%s\t%s\t%s\t%s\t%s\t%.1f\t%s\n" "$id" "$prop" "$base" "$p" "$code" "$(echo "$t1 - $t0" | bc)" "$class" | tee -a "$OUT"
    if [ "$code" != 0 ]; then miss=1; echo "  FALSE ALARM (or harness error) by $p $TIER on $id"; grep -m3 -E "^violation|detail=|harness error" "$S/run.log" | cut -c1-300; fi
  done
done
exit $miss
