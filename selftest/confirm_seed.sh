#!/bin/bash
# Independent confirmation of a candidate breaking change before it is kept under /verif/seeded:
# in a fresh scratch worktree of /repo: (1) patch applies, (2) the existing suite passes with it
# (with and without --features serde), (3) the demonstration fails with it, (4) the demonstration passes without it.
# env DEMO_FLAGS=--release for demonstrations that only fail without debug assertions
# usage: confirm_seed.sh <dir containing patch.diff and demo.rs>     (prints one line, exit 0 if all four hold)
set -u
D=$(cd "$1" && pwd); W=/tmp/confirm-seed-$$; T=/tmp/confirm-seed-target
export CARGO_NET_OFFLINE=true CARGO_TARGET_DIR=$T
git -C /repo worktree add --detach "$W" HEAD >/dev/null 2>&1 || { echo "worktree failed"; exit 2; }
trap 'git -C /repo worktree remove --force "$W" >/dev/null 2>&1' EXIT
cd "$W"
git apply "$D/patch.diff" || { echo "$D: patch does not apply"; exit 1; }
s1=$(cargo test --workspace --no-fail-fast --offline 2>&1 | grep -E "^test result" | awk '{p+=$4; f+=$6} END{print p"/"f}')
s2=$(cargo test --workspace --no-fail-fast --offline --features serde 2>&1 | grep -E "^test result" | awk '{p+=$4; f+=$6} END{print p"/"f}')
cp "$D/demo.rs" tests/seed_demo.rs
d1=$(cargo test --offline --features serde ${DEMO_FLAGS:-} --test seed_demo ${DEMO_ARGS:-} 2>&1 | grep -E "^test result" | awk '{print $4"/"$6}')
git checkout -q -- src Cargo.toml
d0=$(cargo test --offline --features serde ${DEMO_FLAGS:-} --test seed_demo ${DEMO_ARGS:-} 2>&1 | grep -E "^test result" | awk '{print $4"/"$6}')
rm -f tests/seed_demo.rs
ok=1
p1=${s1%/*}; f1=${s1#*/}; p2=${s2%/*}; f2=${s2#*/}; [ "${p1:-0}" -ge 158 ] && [ "${f1:-1}" = 0 ] && [ "${p2:-0}" -ge 159 ] && [ "${f2:-1}" = 0 ] || ok=0
case "$d1" in */0|"") ok=0;; esac
case "$d0" in */0) ;; *) ok=0;; esac
echo "$D suite(pass/fail)=$s1 suite+serde=$s2 demo_with_patch=$d1 demo_without=$d0 confirmed=$ok"
[ $ok = 1 ]
