//! Batch runner: splits run indices over worker threads, keeps results independent of the worker
//! count, watches for hung runs, turns panics into attributable events.

use crate::scenario::{Scenario, Violation};
use crate::stats::Stats;
use std::cell::{Cell, RefCell};
use std::panic::{catch_unwind, AssertUnwindSafe};
use std::sync::atomic::{AtomicBool, AtomicU64, Ordering};
use std::sync::Mutex;
use std::time::{Duration, Instant};

#[derive(Clone, Copy, PartialEq, Eq, Debug)]
pub enum Side {
    Harness = 0,
    Reference = 1,
    Subject = 2,
}

thread_local! {
    static SIDE: Cell<u8> = const { Cell::new(0) };
    static LAST_PANIC: RefCell<Option<String>> = const { RefCell::new(None) };
}

pub fn set_side(s: Side) {
    SIDE.with(|c| c.set(s as u8));
}
pub fn side() -> Side {
    match SIDE.with(|c| c.get()) {
        1 => Side::Reference,
        2 => Side::Subject,
        _ => Side::Harness,
    }
}
/// run `f` as code of the given side (for panic attribution)
#[inline]
pub fn on<T>(s: Side, f: impl FnOnce() -> T) -> T {
    let prev = SIDE.with(|c| c.replace(s as u8));
    let r = f();
    SIDE.with(|c| c.set(prev));
    r
}
pub fn take_panic() -> Option<String> {
    LAST_PANIC.with(|p| p.borrow_mut().take())
}

pub fn install_panic_hook() {
    std::panic::set_hook(Box::new(|info| {
        let loc = info.location().map(|l| format!("{}:{}:{}", l.file(), l.line(), l.column())).unwrap_or_default();
        let msg = if let Some(s) = info.payload().downcast_ref::<&str>() {
            s.to_string()
        } else if let Some(s) = info.payload().downcast_ref::<String>() {
            s.clone()
        } else {
            "<non-string panic>".to_string()
        };
        let s = format!("{} at {}", msg, loc);
        if side() == Side::Harness {
            eprintln!("HARNESS PANIC: {}", s);
        }
        LAST_PANIC.with(|p| *p.borrow_mut() = Some(s));
    }));
}

#[derive(Clone, Debug)]
pub struct Found {
    pub run: u64,
    pub scenario: Scenario,
    pub violation: Violation,
}

pub enum RunResult {
    Ok,
    /// a violation not covered by the known-findings file
    Violation(Box<(Scenario, Violation)>),
}

/// what a panic inside a run means, decided by which side was executing
pub enum PanicVerdict {
    Subject(String),
    Reference(String),
    Harness(String),
}

/// Execute `f` catching panics and attributing them.
pub fn guarded<T>(f: impl FnOnce() -> T) -> Result<T, PanicVerdict> {
    set_side(Side::Harness);
    match catch_unwind(AssertUnwindSafe(f)) {
        Ok(v) => Ok(v),
        Err(_) => {
            let s = side();
            set_side(Side::Harness);
            let msg = take_panic().unwrap_or_else(|| "panic".into());
            Err(match s {
                Side::Subject => PanicVerdict::Subject(msg),
                Side::Reference => PanicVerdict::Reference(msg),
                Side::Harness => PanicVerdict::Harness(msg),
            })
        }
    }
}

pub struct Batch {
    pub stats: Stats,
    pub found: Option<Found>,
    pub executed: u64,
    pub truncated: bool,
    pub hung: Option<u64>,
}

/// Run indices 0..runs over `jobs` threads. `g(run, &mut Stats)` generates and executes run `run`.
/// On a violation at index r every index < r is still executed and the smallest failing index is
/// reported, so the outcome does not depend on thread timing.
pub fn run_batch<G>(runs: u64, jobs: usize, wall_cap: Duration, hang_limit: Duration, on_hang: &(dyn Fn(u64) + Sync), g: G) -> Batch
where
    G: Fn(u64, &mut Stats) -> RunResult + Sync,
{
    let next = AtomicU64::new(0);
    let stop_at = AtomicU64::new(u64::MAX);
    let truncated = AtomicBool::new(false);
    let start = Instant::now();
    let results: Mutex<(Stats, Option<Found>, u64)> = Mutex::new((Stats::default(), None, 0));
    let jobs = jobs.max(1);
    let current: Vec<AtomicU64> = (0..jobs).map(|_| AtomicU64::new(u64::MAX)).collect();
    let beat: Vec<AtomicU64> = (0..jobs).map(|_| AtomicU64::new(0)).collect();
    let done = AtomicU64::new(0);
    let mut hung = None;
    std::thread::scope(|s| {
        for w in 0..jobs {
            let (next, stop_at, truncated, results, g, current, beat, done) = (&next, &stop_at, &truncated, &results, &g, &current, &beat, &done);
            s.spawn(move || {
                let mut st = Stats::default();
                let mut found: Option<Found> = None;
                let mut executed = 0u64;
                loop {
                    let i = next.fetch_add(1, Ordering::SeqCst);
                    if i >= runs || i > stop_at.load(Ordering::SeqCst) {
                        break;
                    }
                    if i % 64 == 0 && start.elapsed() > wall_cap {
                        truncated.store(true, Ordering::SeqCst);
                        break;
                    }
                    current[w].store(i, Ordering::SeqCst);
                    beat[w].fetch_add(1, Ordering::SeqCst);
                    executed += 1;
                    if let RunResult::Violation(b) = g(i, &mut st) {
                        let (scenario, violation) = *b;
                        stop_at.fetch_min(i, Ordering::SeqCst);
                        if found.as_ref().map_or(true, |f| i < f.run) {
                            found = Some(Found { run: i, scenario, violation });
                        }
                    }
                }
                current[w].store(u64::MAX, Ordering::SeqCst);
                st.compact();
                let mut r = results.lock().unwrap();
                r.0.merge(st);
                r.2 += executed;
                if let Some(f) = found {
                    if r.1.as_ref().map_or(true, |g| f.run < g.run) {
                        r.1 = Some(f);
                    }
                }
                done.fetch_add(1, Ordering::SeqCst);
            });
        }
        // watchdog: a run that makes no progress for `hang_limit` violates "returns normally"
        let mut last: Vec<(u64, Instant)> = (0..jobs).map(|_| (0, Instant::now())).collect();
        while done.load(Ordering::SeqCst) < jobs as u64 {
            std::thread::sleep(Duration::from_millis(20));
            for w in 0..jobs {
                let b = beat[w].load(Ordering::SeqCst);
                if b != last[w].0 {
                    last[w] = (b, Instant::now());
                } else if current[w].load(Ordering::SeqCst) != u64::MAX && last[w].1.elapsed() > hang_limit {
                    hung = Some(current[w].load(Ordering::SeqCst));
                }
            }
            if hung.is_some() {
                break;
            }
        }
        if let Some(r) = hung {
            // cannot kill the stuck thread: report and leave the process from here
            println!("HANG run={} (no progress for {:?})", r, hang_limit);
            on_hang(r);
            crate::report::hang_exit(r, None);
        }
    });
    let (stats, found, executed) = results.into_inner().unwrap();
    Batch { stats, found, executed, truncated: truncated.load(Ordering::SeqCst), hung }
}
