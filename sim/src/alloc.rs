//! Allocator seam: a counting wrapper around the system allocator with PER-THREAD live-byte,
//! peak and allocation counters. Only the `tasim` binary installs it as #[global_allocator].
//! A node's ticks are executed on one worker thread inside an accounting window during which the
//! harness itself allocates nothing, so the thread's delta is the node's.

use std::alloc::{GlobalAlloc, Layout, System};
use std::cell::Cell;

pub struct CountingAlloc;

thread_local! {
    static SEQ: Cell<u64> = const { Cell::new(0) };
    static LIVE: Cell<i64> = const { Cell::new(0) };
    static PEAK: Cell<i64> = const { Cell::new(0) };
    static ALLOCS: Cell<u64> = const { Cell::new(0) };
}

#[inline]
fn add(n: i64) {
    let _ = LIVE.try_with(|l| {
        let v = l.get() + n;
        l.set(v);
        if n > 0 {
            let _ = ALLOCS.try_with(|a| a.set(a.get() + 1));
            let _ = PEAK.try_with(|p| {
                if v > p.get() {
                    p.set(v)
                }
            });
        }
    });
}

/// Dirty-memory fault: memory handed out by `alloc` (not `alloc_zeroed`) and the grown tail of a
/// `realloc` is filled with finite f64 garbage that differs from one allocation to the next (about
/// 100.0 plus a per-thread sequence number in the low mantissa bits). Correct code never reads it;
/// code that reads a slot before writing it (set_len, MaybeUninit, a forgotten fill) computes with
/// garbage that differs between two instances - which every relational oracle then sees.
#[inline]
unsafe fn poison(p: *mut u8, from: usize, to: usize) {
    if to <= from {
        return;
    }
    let seq = SEQ.try_with(|s| {
        let v = s.get().wrapping_add(1);
        s.set(v);
        v
    })
    .unwrap_or(1);
    let word: u64 = 0x4059_0000_0000_0000 | ((seq & 0xFFFF_FFFF) << 12);
    let bytes = word.to_le_bytes();
    // byte-wise so that any alignment and any size works; the pattern is aligned to the block start
    let mut i = from;
    while i < to {
        *p.add(i) = bytes[i & 7];
        i += 1;
    }
}

unsafe impl GlobalAlloc for CountingAlloc {
    unsafe fn alloc(&self, l: Layout) -> *mut u8 {
        let p = System.alloc(l);
        if !p.is_null() {
            add(l.size() as i64);
            poison(p, 0, l.size());
        }
        p
    }
    unsafe fn alloc_zeroed(&self, l: Layout) -> *mut u8 {
        let p = System.alloc_zeroed(l);
        if !p.is_null() {
            add(l.size() as i64);
        }
        p
    }
    unsafe fn dealloc(&self, p: *mut u8, l: Layout) {
        System.dealloc(p, l);
        add(-(l.size() as i64));
    }
    unsafe fn realloc(&self, p: *mut u8, l: Layout, new: usize) -> *mut u8 {
        let q = System.realloc(p, l, new);
        if !q.is_null() {
            add(-(l.size() as i64));
            add(new as i64);
            poison(q, l.size(), new);
        }
        q
    }
}

/// live bytes allocated (and not yet freed) by the current thread
pub fn live() -> i64 {
    LIVE.try_with(|l| l.get()).unwrap_or(0)
}
pub fn allocs() -> u64 {
    ALLOCS.try_with(|a| a.get()).unwrap_or(0)
}
/// reset the peak tracker to the current live value and return it
pub fn reset_peak() -> i64 {
    let v = live();
    let _ = PEAK.try_with(|p| p.set(v));
    v
}
pub fn peak() -> i64 {
    PEAK.try_with(|p| p.get()).unwrap_or(0)
}

/// Is the counting allocator actually installed in this process? (false under Miri / in tests)
pub fn installed() -> bool {
    let before = allocs();
    let b: Vec<u8> = std::hint::black_box(Vec::with_capacity(std::hint::black_box(64)));
    let after = allocs();
    drop(std::hint::black_box(b));
    after > before
}
