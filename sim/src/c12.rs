//! C12 — next()/reset()/clone/Display/Debug/serialization are total under a corrupt feed, with
//! overflow checks and debug assertions compiled in (the harness profile turns both on for `ta`).

use crate::driver::{conclude, run_stage};
use crate::gen::{self, Tier};
use crate::report;
use crate::rng::{fnv_u64, run_seed, Rng};
use crate::runner::{guarded, on, PanicVerdict, Side};
use crate::scenario::{Op, Scenario, Violation};
use crate::stats::{phase, Stats};
use crate::sut::{build_spec, Input, Kind, Mode, NodeSpec, Params, Sut, ALL_KINDS};
use crate::world::{self, Fault, FaultPlan, Regime, StreamDesc, World, ALL_FEED_FAULTS};
use serde_json::json;
use std::time::{Duration, Instant};

pub const PROP: &str = "C12";

fn viol(kind: Kind, step: usize, what: &str, msg: String) -> Violation {
    Violation {
        property: PROP.into(),
        class: format!("C12/panic/{}", kind.name()),
        step,
        detail: format!("{} panicked: {}", what, msg),
        expected: vec!["returns normally".into()],
        got: vec![msg],
        oracle: "catch_unwind around every call; overflow-checks and debug-assertions on".into(),
    }
}

/// Pure executor. Outputs are not judged (NaN in => NaN out is fine); only that every call returns.
pub fn exec(sc: &Scenario, st: &mut Stats) -> Option<Violation> {
    let spec = sc.nodes[0];
    let kind = spec.kind;
    let window = spec.params.window(kind);
    let mut nodes: Vec<Option<(Box<dyn Sut>, u64, bool)>> = sc.nodes.iter().map(|s| Some((build_spec(s), 0, false))).collect();
    let mut last_fault = Fault::Clean;
    let mut digest = 0u64;
    let mut step = 0usize;
    let mut what = "";
    let r = guarded(|| {
        for (i, op) in sc.ops.iter().enumerate() {
            step = i;
            st.op(op);
            let n = op.node();
            match op {
                Op::Fork { src, dst, into: true } if src != dst && matches!(nodes.get(*src), Some(Some(_))) && matches!(nodes.get(*dst), Some(Some(_))) => {
                    what = "clone_from()";
                    let mut d = nodes[*dst].take().unwrap();
                    let s = nodes[*src].as_ref().unwrap();
                    if on(Side::Subject, || d.0.clone_from_sut(s.0.as_ref())) {
                        d.1 = s.1;
                        d.2 = s.2;
                        st.bump("clone_from_calls");
                    }
                    nodes[*dst] = Some(d);
                    continue;
                }
                Op::Fork { src, dst, .. } => {
                    what = "clone()";
                    if let Some(Some((s, c, r))) = nodes.get(*src) {
                        let f = on(Side::Subject, || s.fork());
                        let (c, r) = (*c, *r);
                        while nodes.len() <= *dst {
                            nodes.push(None);
                        }
                        nodes[*dst] = Some((f, c, r));
                    }
                    continue;
                }
                Op::Drop { n } => {
                    if *n > 0 && *n < nodes.len() {
                        nodes[*n] = None;
                    }
                    continue;
                }
                _ => {}
            }
            let Some(Some((node, count, was_reset))) = nodes.get_mut(n) else { continue };
            match op {
                Op::Feed { x, f, .. } => {
                    what = "next()";
                    st.ticks += 1;
                    st.fault(*f);
                    if *f != Fault::Clean {
                        last_fault = *f;
                    }
                    let (o, used) = on(Side::Subject, || node.feed(spec.mode, x));
                    st.comparisons += 1;
                    st.situation(kind, &spec.params, phase(*count, window, *was_reset), 1, *f, used, 0);
                    for b in o.bits() {
                        digest = fnv_u64(digest, b);
                    }
                    *count += 1;
                }
                Op::Gen { g, skip, len, fault, every, reset_every, .. } => {
                    what = "next()";
                    let mut resets = 0u64;
                    world::expand_gen(g, *skip, *len, *fault, *every, *reset_every, |x, _f, reset| {
                        if reset {
                            on(Side::Subject, || node.reset());
                            *count = 0;
                            *was_reset = true;
                            resets += 1;
                        }
                        let (o, _) = on(Side::Subject, || node.feed(spec.mode, x));
                        digest = fnv_u64(digest, o.bits()[0]);
                        *count += 1;
                        true
                    });
                    if let Some(f) = fault {
                        if *every > 0 {
                            *st.faults.entry(f.name()).or_insert(0) += *len / *every;
                        }
                    }
                    st.add("resets_inside_generated_streams", resets);
                    if *len >= 65_536 {
                        st.bump("runs_past_65536_calls");
                    }
                    st.ticks += *len;
                    st.comparisons += *len;
                    st.situation(kind, &spec.params, phase(*count, window, *was_reset), 2, last_fault, spec.mode, 0);
                }
                Op::Soak { seed, len, .. } => {
                    what = "next()";
                    let mut w = World::from_desc(&StreamDesc { regime: Regime::Walk, level: crate::sut::Fx(100.0), saw: 3, seed: *seed, neg: false });
                    let cycle: Vec<Input> = (0..4096).map(|_| w.clean()).collect();
                    let mode = spec.mode;
                    let mut acc = 0u64;
                    on(Side::Subject, || {
                        let mut k = 0usize;
                        for _ in 0..*len {
                            let (o, _) = node.feed(mode, &cycle[k]);
                            acc ^= o.bits()[0];
                            k = (k + 1) & 4095;
                        }
                    });
                    digest = fnv_u64(digest, acc);
                    *count += *len;
                    st.ticks += *len;
                    st.comparisons += *len;
                    if *len > u32::MAX as u64 {
                        st.bump("runs_past_2^32_calls");
                    }
                    st.situation(kind, &spec.params, phase(*count, window, *was_reset), 13, last_fault, spec.mode, 0);
                }
                Op::Reset { .. } => {
                    what = "reset()";
                    on(Side::Subject, || node.reset());
                    st.situation(kind, &spec.params, phase(*count, window, *was_reset), 3, last_fault, spec.mode, 0);
                    *count = 0;
                    *was_reset = true;
                }
                Op::Format { .. } => {
                    what = "Display/Debug";
                    let l = on(Side::Subject, || node.display().len() + node.debug().len() + node.format_variants(*count % 4 == 0) + node.period().unwrap_or(0) + node.multiplier().map_or(0, |m| m.to_bits() as usize & 1));
                    digest = fnv_u64(digest, l as u64 & 0);
                    st.situation(kind, &spec.params, phase(*count, window, *was_reset), 10, last_fault, spec.mode, 0);
                }
                Op::Save { .. } | Op::RoundTrip { .. } => {
                    what = "serialize/deserialize";
                    let replace = matches!(op, Op::RoundTrip { .. });
                    let loaded = on(Side::Subject, || {
                        let bytes = node.save();
                        let _ = node.save_size();
                        // the human-readable path must return too (Err on non-finite state is fine)
                        let _ = node.save_json().ok().and_then(|t| node.load_json(&t).ok());
                        // every restore path must return: from a byte slice, from an io::Read, in place
                        if let Ok(b) = &bytes {
                            let _ = node.load_reader(b);
                            // ... and the in-place one, over a live copy of the state
                            let mut t = node.fork();
                            let _ = t.load_in_place(b);
                        }
                        bytes.ok().and_then(|b| node.load(&b).ok())
                    });
                    st.situation(kind, &spec.params, phase(*count, window, *was_reset), 12, last_fault, spec.mode, 0);
                    match loaded {
                        Some(l) => {
                            if replace {
                                *node = l;
                            }
                        }
                        None => st.bump("serde_returned_err"),
                    }
                }
                _ => {}
            }
        }
    });
    st.digest = st.digest.wrapping_add(fnv_u64(digest, sc.ops.len() as u64));
    match r {
        Ok(()) => {
            st.nontrivial_runs += 1;
            None
        }
        Err(PanicVerdict::Subject(m)) => Some(viol(kind, step, what, m)),
        Err(PanicVerdict::Reference(m)) | Err(PanicVerdict::Harness(m)) => {
            eprintln!("harness error: {}", m);
            std::process::exit(2);
        }
    }
}

pub fn exec_plain(sc: &Scenario) -> Option<Violation> {
    exec(sc, &mut Stats::default())
}

// ---------------------------------------------------------------------------------------------
// enumerated grid (seed independent)

/// every fault value class as a scalar-shaped tick and as single-field bar hits, plus clean values
fn value_cycle() -> Vec<(Input, Fault)> {
    let mut v = vec![];
    let specials: [(f64, Fault); 14] = [
        (f64::NAN, Fault::Nan),
        (-f64::NAN, Fault::Nan),
        (f64::INFINITY, Fault::PosInf),
        (f64::NEG_INFINITY, Fault::NegInf),
        (f64::MAX, Fault::PosMax),
        (f64::MIN, Fault::NegMax),
        (f64::MIN_POSITIVE, Fault::MinPos),
        (f64::from_bits(1), Fault::Subnormal),
        (-0.0, Fault::NegZero),
        (0.0, Fault::Zero),
        (1e300, Fault::Huge),
        (-1e300, Fault::Huge),
        (-7.0, Fault::Negative),
        (1e-300, Fault::MinPos),
    ];
    let base = Input { o: 10.0, h: 12.0, l: 9.0, c: 11.0, v: 100.0 };
    for (x, f) in specials {
        v.push((Input { o: x, h: x, l: x, c: x, v: 1.0 }, f));
        for k in 0..5 {
            let mut fs = base.fields();
            fs[k] = x;
            v.push((Input::from_fields(fs), f));
        }
        v.push((Input { o: x, h: x, l: x, c: x, v: x }, f));
    }
    v.push((Input { o: 10.0, h: 8.0, l: 12.0, c: 10.0, v: 5.0 }, Fault::InvertedBar));
    v.push((Input { o: 10.0, h: 12.0, l: 9.0, c: 20.0, v: 5.0 }, Fault::CloseOutside));
    v.push((Input { o: 10.0, h: 12.0, l: 9.0, c: 1.0, v: 5.0 }, Fault::CloseOutside));
    v.push((Input { o: 10.0, h: 12.0, l: 9.0, c: 11.0, v: -5.0 }, Fault::NegVolume));
    v.push((Input { o: 10.0, h: 12.0, l: 9.0, c: 11.0, v: 0.0 }, Fault::ZeroVolume));
    v.push((Input { o: 1e7, h: 1.2e7, l: 9.0, c: 1.1e7, v: 1e9 }, Fault::Spike1e6));
    v
}

fn clean_tick(j: usize, shape: usize) -> Input {
    let j = j as f64;
    let c = match shape {
        0 => 10.0 + j,
        1 => 1000.0 - j,
        2 => 10.0 + (j % 3.0),
        _ => 10.0,
    };
    Input { o: c, h: c + 1.0, l: c - 1.0, c, v: 10.0 + (j % 4.0) }
}

fn grid_specs(max_p: usize) -> Vec<NodeSpec> {
    let mut v = vec![];
    for &k in ALL_KINDS.iter() {
        let modes: Vec<Mode> = if k.has_scalar() { vec![Mode::Scalar, Mode::Bar, Mode::Item] } else { vec![Mode::Bar, Mode::Item] };
        let mults: Vec<f64> = if k.has_multiplier() { vec![2.0, 0.0, -2.0, 1e300, f64::NAN, f64::INFINITY] } else { vec![2.0] };
        for p in 1..=max_p {
            let tuples: Vec<(usize, usize, usize)> = match k.n_periods() {
                0 => {
                    if p == 1 {
                        vec![(1, 1, 1)]
                    } else {
                        vec![]
                    }
                }
                1 => vec![(p, 1, 1)],
                2 => vec![(p, p, 1), (p, 1, 1), (1, p, 1), (p, p + 1, 1), (p + 1, p, 1)],
                _ => vec![(p, p, p), (p, 1, 1), (1, p, 1), (1, 1, p), (p, p + 1, 2), (p + 1, p, 2)],
            };
            for &(a, b, c) in &tuples {
                for &m in &modes {
                    for &mu in &mults {
                        v.push(NodeSpec { kind: k, params: Params::new(a, b, c, mu), mode: m, dflt: false });
                    }
                }
            }
        }
    }
    v
}

/// grid A: one long run per (spec, offset): 3*sum+3+16 calls cycling through every fault value,
/// with reset / clone / Display / Debug / save+load at a fixed stride.
fn grid_a(idx: u64, specs: &[NodeSpec], cyc: &[(Input, Fault)], offsets: u64) -> Scenario {
    let spec = specs[(idx / offsets) as usize];
    let off = (idx % offsets) as usize * (cyc.len() / offsets as usize).max(1);
    let sp = spec.params.sum_periods(spec.kind).max(1);
    let len = 3 * sp + 3 + 16;
    let mut ops = vec![];
    for j in 0..len {
        // two clean ticks between corrupt ones so cursors advance through clean and poisoned states
        let (x, f) = if j % 3 == 2 { cyc[(off + j / 3) % cyc.len()] } else { (clean_tick(j, (idx % 4) as usize), Fault::Clean) };
        ops.push(Op::Feed { n: 0, x, f });
        match j % 11 {
            3 => ops.push(Op::Format { n: 0 }),
            5 => ops.push(Op::Save { n: 0 }),
            7 => {
                ops.push(Op::Fork { src: 0, dst: 1, into: j % 22 == 7 });
                ops.push(Op::Feed { n: 1, x, f });
                ops.push(Op::Format { n: 1 });
            }
            9 => ops.push(Op::RoundTrip { n: 0, times: 1, json: false }),
            10 => {
                if j % 22 == 10 {
                    ops.push(Op::Reset { n: 0 })
                }
            }
            _ => {}
        }
    }
    // finally: clone_from between instances with DIFFERENT parameters, both directions (node 2 is a
    // same-kind instance with other periods that was fed a few ticks)
    let mut alt = spec;
    alt.params.p1 = if spec.params.p1 > 3 { spec.params.p1 - 3 } else { spec.params.p1 + 5 };
    alt.params.p2 += 1;
    for j in 0..3 {
        ops.push(Op::Feed { n: 2, x: clean_tick(j, 0), f: Fault::Clean });
    }
    ops.push(Op::Fork { src: 2, dst: 1, into: true });
    ops.push(Op::Feed { n: 1, x: clean_tick(4, 0), f: Fault::Clean });
    ops.push(Op::Format { n: 1 });
    ops.push(Op::Fork { src: 0, dst: 2, into: true });
    ops.push(Op::Feed { n: 2, x: clean_tick(5, 0), f: Fault::Clean });
    ops.push(Op::Save { n: 2 });
    Scenario { property: PROP.into(), stage: "grid-a".into(), nodes: vec![spec, spec, alt], ops, workers: 0 }
}

/// grid B: every (cursor state s in 0..3*sum+3) x (fault value): s clean ticks, the fault value,
/// then reset/clone/format/save on the poisoned state and 3 more ticks.
fn grid_b_count(specs: &[NodeSpec], cyc: usize) -> (u64, Vec<u64>) {
    let mut starts = vec![];
    let mut tot = 0u64;
    for s in specs {
        starts.push(tot);
        let sp = s.params.sum_periods(s.kind).max(1) as u64;
        tot += (3 * sp + 3) * cyc as u64;
    }
    (tot, starts)
}

fn grid_b(idx: u64, specs: &[NodeSpec], starts: &[u64], cyc: &[(Input, Fault)]) -> Scenario {
    let si = match starts.binary_search(&idx) {
        Ok(i) => i,
        Err(i) => i - 1,
    };
    let spec = specs[si];
    let r = idx - starts[si];
    let s = (r / cyc.len() as u64) as usize;
    let (fx, ff) = cyc[(r % cyc.len() as u64) as usize];
    let mut ops = vec![];
    let shape = (idx % 4) as usize;
    if s > 24 {
        // long clean prefixes as one generated stream op keeps the scenario small
        ops.push(Op::Gen { n: 0, g: StreamDesc { regime: [Regime::Up, Regime::Down, Regime::Few, Regime::Flat][shape], level: crate::sut::Fx(10.0), saw: 3, seed: 7, neg: false }, skip: 0, len: s as u64, fault: None, every: 0, reset_every: 0, clone_every: 0 });
    } else {
        for j in 0..s {
            ops.push(Op::Feed { n: 0, x: clean_tick(j, shape), f: Fault::Clean });
        }
    }
    ops.push(Op::Feed { n: 0, x: fx, f: ff });
    ops.push(Op::Format { n: 0 });
    ops.push(Op::Save { n: 0 });
    ops.push(Op::Fork { src: 0, dst: 1, into: false });
    ops.push(Op::Feed { n: 1, x: clean_tick(s + 1, shape), f: Fault::Clean });
    ops.push(Op::Feed { n: 0, x: clean_tick(s + 1, shape), f: Fault::Clean });
    ops.push(Op::Feed { n: 0, x: fx, f: ff });
    ops.push(Op::RoundTrip { n: 0, times: 1, json: false });
    ops.push(Op::Feed { n: 0, x: clean_tick(s + 2, shape), f: Fault::Clean });
    ops.push(Op::Reset { n: 0 });
    ops.push(Op::Feed { n: 0, x: fx, f: ff });
    ops.push(Op::Feed { n: 0, x: clean_tick(s + 3, shape), f: Fault::Clean });
    Scenario { property: PROP.into(), stage: "grid-b".into(), nodes: vec![spec], ops, workers: 0 }
}

/// grid-mega: every O(1)-per-call kind with windows around and beyond 2^16 slots, 3*period+3 calls, with
/// reset / clone / Display / save at the end (narrow integer types for cursors, counters, weight totals)
fn mega_specs(periods: &[usize]) -> Vec<NodeSpec> {
    let mut v = vec![];
    for &k in ALL_KINDS.iter() {
        if !gen::cheap_per_tick(k) || k.n_periods() == 0 {
            continue;
        }
        for &p in periods {
            let modes: Vec<Mode> = if k.has_scalar() { vec![Mode::Scalar, Mode::Bar] } else { vec![Mode::Bar] };
            for m in modes {
                v.push(NodeSpec { kind: k, params: Params::new(p, 3, 2, 2.0), mode: m, dflt: false });
                if k.n_periods() > 1 {
                    v.push(NodeSpec { kind: k, params: Params::new(3, p, 2, 2.0), mode: m, dflt: false });
                }
            }
        }
    }
    v
}

fn grid_mega(idx: u64, specs: &[NodeSpec]) -> Scenario {
    let spec = specs[idx as usize];
    let sp = spec.params.sum_periods(spec.kind) as u64;
    let g = StreamDesc { regime: [Regime::Walk, Regime::Up, Regime::Few][(idx % 3) as usize], level: crate::sut::Fx(50.0), saw: 5, seed: idx, neg: false };
    let ops = vec![
        Op::Gen { n: 0, g, skip: 0, len: 3 * sp + 3, fault: if idx % 2 == 0 { Some(Fault::Nan) } else { None }, every: 50_001, reset_every: 0, clone_every: 0 },
        Op::Format { n: 0 },
        Op::Save { n: 0 },
        Op::Fork { src: 0, dst: 1, into: false },
        Op::Feed { n: 1, x: clean_tick(1, 0), f: Fault::Clean },
        Op::Reset { n: 0 },
        Op::Gen { n: 0, g, skip: 7, len: sp + 2, fault: None, every: 0, reset_every: 0, clone_every: 0 },
    ];
    Scenario { property: PROP.into(), stage: "grid-mega".into(), nodes: vec![spec], ops, workers: 0 }
}

/// huge-periods: the windowless EMA family with periods around 2^31 .. 2^62
fn huge_scenario(idx: u64, specs: &[NodeSpec]) -> Scenario {
    let spec = specs[idx as usize];
    let cyc = value_cycle();
    let mut ops = vec![];
    for j in 0..24 {
        if j % 4 == 3 {
            let (x, f) = cyc[(idx as usize * 7 + j) % cyc.len()];
            ops.push(Op::Feed { n: 0, x, f });
        } else {
            ops.push(Op::Feed { n: 0, x: gen::plain_tick(j), f: Fault::Clean });
        }
        match j {
            5 => ops.push(Op::Format { n: 0 }),
            9 => ops.push(Op::Save { n: 0 }),
            13 => ops.push(Op::Fork { src: 0, dst: 1, into: false }),
            17 => ops.push(Op::Reset { n: 0 }),
            21 => ops.push(Op::RoundTrip { n: 0, times: 1, json: false }),
            _ => {}
        }
    }
    Scenario { property: PROP.into(), stage: "huge-periods".into(), nodes: vec![spec], ops, workers: 0 }
}

/// int-extremes: whole-number inputs at the edge of exact integer arithmetic (2^53, 2^53-1, -2^53, 2^62, 2^63)
/// on windows of 1024 .. 4096 slots: an 'exact integer' fast path overflows i64 there
fn int_specs() -> Vec<NodeSpec> {
    let mut v = vec![];
    for &k in ALL_KINDS.iter() {
        if k.n_periods() == 0 {
            continue;
        }
        for p in [1024usize, 1025, 2048, 4096] {
            let mode = if k.has_scalar() { Mode::Scalar } else { Mode::Bar };
            v.push(NodeSpec { kind: k, params: Params::new(p, 2, 2, 2.0), mode, dflt: false });
        }
    }
    v
}

fn int_scenario(idx: u64, specs: &[NodeSpec]) -> Scenario {
    let spec = specs[(idx / 5) as usize];
    let big = [9007199254740992.0f64, 9007199254740991.0, -9007199254740992.0, 4611686018427387904.0, 9223372036854775808.0][(idx % 5) as usize];
    let n = spec.params.p1;
    let mut ops = vec![];
    for j in 0..(n + n / 2 + 3) {
        let x = if idx % 5 == 1 && j % 2 == 1 { big + 1.0 } else { big };
        ops.push(Op::Feed { n: 0, x: Input { o: x, h: x, l: x, c: x, v: 1024.0 }, f: Fault::Huge });
    }
    ops.push(Op::Format { n: 0 });
    ops.push(Op::Reset { n: 0 });
    ops.push(Op::Feed { n: 0, x: Input::scalar(3.0), f: Fault::Clean });
    Scenario { property: PROP.into(), stage: "int-extremes".into(), nodes: vec![spec], ops, workers: 0 }
}

/// soak (thorough only): every kind, smallest windows, more than 2^32 calls on one instance
fn soak_scenario(idx: u64) -> Scenario {
    let kind = ALL_KINDS[(idx % 22) as usize];
    let mode = if kind.has_scalar() { Mode::Scalar } else { Mode::Bar };
    let spec = NodeSpec { kind, params: Params::new(2, 2, 2, 2.0), mode, dflt: false };
    let ops = vec![Op::Soak { n: 0, seed: idx, len: (1u64 << 32) + 4096 + 7 }, Op::Format { n: 0 }, Op::Save { n: 0 }, Op::Reset { n: 0 }, Op::Soak { n: 0, seed: idx + 1, len: 5000 }];
    Scenario { property: PROP.into(), stage: "soak".into(), nodes: vec![spec], ops, workers: 0 }
}

// ---------------------------------------------------------------------------------------------
// seeded swarm runs

pub fn generate(rng: &mut Rng, tier: Tier) -> Scenario {
    let mut spec = gen::random_spec(rng, tier, None);
    // periods sampled log-uniformly up to 4096
    if rng.chance(0.15) {
        let cap = 4096;
        spec.params.p1 = rng.log_range(1, cap);
        if rng.chance(0.3) {
            spec.params.p2 = rng.log_range(1, cap);
        }
        if rng.chance(0.3) {
            spec.params.p3 = rng.log_range(1, cap);
        }
    }
    let kind = spec.kind;
    let sp = spec.params.sum_periods(kind).max(1);
    let mut w = World::random(rng);
    let plan = if rng.chance(0.1) { FaultPlan::none() } else { FaultPlan::swarm(rng, &ALL_FEED_FAULTS, 0.005, 0.6) };
    let max_len = match tier {
        Tier::Quick => 2_000,
        Tier::Thorough => 20_000,
    };
    let len = (3 * sp + 3 + rng.range(0, 40)).min(max_len.max(3 * sp + 3));
    let len = if rng.chance(0.02) { max_len.max(len) } else { len };
    let p_reset = if rng.chance(0.3) { 0.05 } else { 0.003 };
    // reset / clone / Debug / serialize cost O(window): keep the work of one run bounded for huge windows
    let heavy_scale = if sp > 2000 { (2000.0 / sp as f64).min(1.0) * (2000.0 / len as f64).min(1.0) } else { 1.0 };
    let p_reset = p_reset * heavy_scale;
    let mut ops = vec![];
    let mut buf = vec![];
    let mut fed = 0;
    let mut forks = 0usize;
    // a few very long runs on small windows: counters narrower than usize (u16/u32 cursors) would wrap
    if rng.chance(0.004) && sp <= 48 {
        let total: u64 = match tier {
            Tier::Quick => 70_000,
            Tier::Thorough => rng.range(70_000, 400_000) as u64,
        };
        let fault = if rng.chance(0.5) { Some(*rng.pick(&world::VALUE_FAULTS)) } else { None };
        ops.push(Op::Gen { n: 0, g: World::random_desc(rng), skip: 0, len: total, fault, every: if fault.is_some() { rng.range(2, 5000) as u64 } else { 0 }, reset_every: if rng.chance(0.3) { rng.range(1, 30_000) as u64 } else { 0 }, clone_every: 0 });
    }
    while fed < len {
        buf.clear();
        world::tick(&mut w, &plan, rng, &mut buf);
        for (x, f) in buf.drain(..) {
            ops.push(Op::Feed { n: 0, x, f });
            if forks > 0 && rng.chance(0.3) {
                ops.push(Op::Feed { n: rng.range(1, forks), x, f });
            }
            fed += 1;
        }
        if rng.chance(p_reset) {
            let k = if rng.chance(0.3) { rng.range(2, 4) } else { 1 };
            for _ in 0..k {
                ops.push(Op::Reset { n: 0 });
            }
        }
        if rng.chance(0.01 * heavy_scale) {
            ops.push(Op::Format { n: 0 });
        }
        if rng.chance(0.01 * heavy_scale) {
            ops.push(Op::Save { n: 0 });
        }
        if rng.chance(0.005 * heavy_scale) {
            ops.push(Op::RoundTrip { n: 0, times: 1, json: false });
        }
        if rng.chance(0.005 * heavy_scale.max(1e-5)) && forks < 3 {
            forks += 1;
            ops.push(Op::Fork { src: 0, dst: forks, into: false });
        } else if rng.chance(0.004) && forks > 0 {
            // clone_from into a live clone, or from the differently-parameterised sibling (node 4)
            if rng.chance(0.5) {
                ops.push(Op::Fork { src: 0, dst: rng.range(1, forks), into: true });
            } else {
                ops.push(Op::Fork { src: 4, dst: rng.range(1, forks), into: true });
            }
        }
    }
    ops.push(Op::Format { n: 0 });
    ops.push(Op::Save { n: 0 });
    let mut alt = gen::random_spec(rng, tier, Some(&[kind]));
    alt.mode = spec.mode;
    Scenario { property: PROP.into(), stage: "seeded".into(), nodes: vec![spec, spec, spec, spec, alt], ops, workers: 0 }
}

pub fn run(tier: Tier) -> i32 {
    let c = report::ctx();
    let start = Instant::now();
    let mut total = Stats::default();
    let (seeded_runs, b_max_p) = match tier {
        Tier::Quick => (400_000u64, 16usize),
        Tier::Thorough => (12_000_000u64, 64usize),
    };
    let wall_cap = match tier {
        Tier::Quick => Duration::from_secs(120),
        Tier::Thorough => Duration::from_secs(1500),
    };
    let cyc = value_cycle();
    let specs = grid_specs(64);
    let offsets = 8u64;
    let seeded_runs = gen::scaled(seeded_runs);
    let ga = run_stage("grid-a", if gen::skip_fixed() { 1 } else { specs.len() as u64 * offsets }, wall_cap, &mut total, &|i| grid_a(i, &specs, &cyc, offsets), &exec, &[100], 30);
    let specs_b = grid_specs(b_max_p);
    let (nb, starts) = grid_b_count(&specs_b, cyc.len());
    let gb = if ga.found.is_none() { Some(run_stage("grid-b", if gen::skip_fixed() { 1 } else { nb }, wall_cap, &mut total, &|i| grid_b(i, &specs_b, &starts, &cyc), &exec, &[5000], 30)) } else { None };
    let mega_periods: &[usize] = match tier {
        Tier::Quick => &[65_535, 65_536, 65_537, 131_073],
        Tier::Thorough => &gen::MEGA_PERIODS,
    };
    let mspecs = mega_specs(mega_periods);
    let clean_so_far = ga.found.is_none() && gb.as_ref().map_or(true, |g| g.found.is_none());
    let gm = if clean_so_far && !gen::skip_fixed() { Some(run_stage("grid-mega", mspecs.len() as u64, wall_cap, &mut total, &|i| grid_mega(i, &mspecs), &exec, &[0], 8)) } else { None };
    let hspecs = gen::huge_specs();
    let ispecs = int_specs();
    let mut extra: Vec<crate::driver::StageOut> = vec![];
    if clean_so_far && gm.as_ref().map_or(true, |g| g.found.is_none()) && !gen::skip_fixed() {
        extra.push(run_stage("huge-periods", hspecs.len() as u64, wall_cap, &mut total, &|i| huge_scenario(i, &hspecs), &exec, &[], 5));
        if extra[0].found.is_none() {
            extra.push(run_stage("int-extremes", ispecs.len() as u64 * 5, wall_cap, &mut total, &|i| int_scenario(i, &ispecs), &exec, &[], 3));
        }
    }
    let extra_clean = extra.iter().all(|e| e.found.is_none());
    let soak = if clean_so_far && extra_clean && gm.as_ref().map_or(true, |g| g.found.is_none()) && tier == Tier::Thorough && !gen::skip_fixed() {
        // 22 runs of > 2^32 calls each (about half a minute per run and core); the hang watchdog is told
        std::env::set_var("VERIF_HANG_LIMIT", "900");
        let r = run_stage("soak", 22, Duration::from_secs(3000), &mut total, &soak_scenario, &exec, &[0], 5);
        std::env::remove_var("VERIF_HANG_LIMIT");
        Some(r)
    } else {
        None
    };
    let seeded = if clean_so_far && extra_clean && gm.as_ref().map_or(true, |g| g.found.is_none()) && soak.as_ref().map_or(true, |g| g.found.is_none()) {
        Some(run_stage("seeded", seeded_runs, wall_cap, &mut total, &|i| generate(&mut Rng::new(run_seed(c.seed, PROP, "seeded", i)), tier), &exec, &[0], 24))
    } else {
        None
    };
    let mut stages = vec![&ga];
    if let Some(s) = &gb {
        stages.push(s);
    }
    if let Some(s) = &gm {
        stages.push(s);
    }
    for e in &extra {
        stages.push(e);
    }
    if let Some(s) = &soak {
        stages.push(s);
    }
    if let Some(s) = &seeded {
        stages.push(s);
    }
    let violations = conclude(&total, &stages);
    let wall = start.elapsed().as_secs_f64();
    let dead: Vec<&str> = ALL_FEED_FAULTS.iter().filter(|f| !matches!(f, Fault::Drop)).map(|f| f.name()).filter(|n| total.faults.get(n).copied().unwrap_or(0) == 0).collect();
    let grid_complete = !ga.truncated && gb.as_ref().map_or(false, |g| !g.truncated);
    report::write_evidence(
        &total,
        report::EvidenceMeta {
            level: "fault_enumeration",
            rule: "Enumerated part (seed independent): grid-a = every indicator x every period 1..=64 (period-tuple variants for multi-period kinds) x every input mode x multipliers {2,0,-2,1e300,NaN,inf} x 8 offsets, each a run of 3*sum(periods)+19 calls whose every third input cycles through every fault value class (as a whole tick and as single-field hits), with reset/clone/Display/Debug/save+load at a fixed stride; grid-b = every cursor state s in 0..3*sum+3 x every fault value for periods up to the stated bound: s clean ticks, the fault value, then Display/Debug/save/clone/round-trip/reset on the poisoned state and further ticks. huge-periods = the windowless EMA family with periods around 2^31..2^62; int-extremes = every windowed indicator with 1024..4096 slots fed whole numbers at the edge of exact integer arithmetic (2^53, 2^53-1, -2^53, 2^62, 2^63); grid-mega = every O(1)-per-call indicator with windows of 65535, 65536, 65537, 131073 (thorough: eight sizes up to 200000) slots, 3*sum+3 calls, then Display/save/clone/reset and a refill; soak (thorough only) = every indicator, smallest windows, 2^32+4103 calls on one instance. Seeded part: swarm runs with periods log-uniform up to 4096, random fault subsets at 0.5%..60%, reset storms, forks, up to 2000 (quick) / 20000 (thorough) ticks. Built with overflow-checks and debug-assertions. distinct_nontrivial counts distinct (indicator, period bucket, window phase, op kind, fault kind of the delivered tick, input mode) tuples in which a call was made and returned.",
            assumptions: vec![
                "outputs are not judged; only that every call returns without panic (panic hook + catch_unwind) and that no run stalls for 60 s".into(),
                "harness profile: opt-level 2, overflow-checks = true, debug-assertions = true for ta and the harness".into(),
                "allocation failure is not injected (it aborts rather than unwinds)".into(),
            ],
            wall_s: wall,
            violations,
            exhaustive: grid_complete,
            extra: json!({"grid_a": {"specs": specs.len(), "offsets": offsets, "fault_values_in_cycle": cyc.len(), "stage": ga.json()},
                           "grid_b": {"specs": specs_b.len(), "max_period": b_max_p, "stage": gb.as_ref().map(|g| g.json())},
                           "grid_mega": {"specs": mspecs.len(), "periods": mega_periods, "stage": gm.as_ref().map(|g| g.json())},
                           "soak_past_2^32_calls": soak.as_ref().map(|g| g.json()),
                           "seeded": seeded.as_ref().map(|s| s.json()), "dead_fault_kinds": dead,
                           "exhaustive_note": "exhaustive refers to the enumerated grids only (the stated finite space), not to all input sequences"}),
        },
    );
    println!("C12 {:?}: grid-a {} runs, grid-b {} runs, seeded {} runs, {} ticks, {} situations, {:.1}s, violations={}", tier, ga.executed, gb.as_ref().map_or(0, |s| s.executed), seeded.as_ref().map_or(0, |s| s.executed), total.ticks, total.situations.len(), wall, violations);
    if violations > 0 {
        return 1;
    }
    if !dead.is_empty() && seeded.as_ref().map_or(false, |s| !s.truncated) {
        eprintln!("harness error: fault kinds never fired: {:?}", dead);
        return 2;
    }
    0
}
