//! C17 — self-stabilisation / bounded recovery: a veteran node that lived through an arbitrary,
//! fault-laden past agrees with a cold-started rookie as soon as both have seen the same last
//! n (n+1 for ROC, ER, MFI) ticks. Faults: spikes x10..x1e6 (price and volume), regime shifts,
//! stalls, duplicates, drops, long uptime, and the state-losing cold restart itself.

use crate::driver::{conclude, run_stage};
use crate::gen::Tier;
use crate::oracle::tau;
use crate::report;
use crate::rng::{fnv_u64, run_seed, Rng};
use crate::runner::{guarded, on, PanicVerdict, Side};
use crate::scenario::{Op, Scenario, Violation};
use crate::stats::{phase, Stats};
use crate::sut::{build_spec, Fx, Input, Kind, Mode, NodeSpec, Out, Params, Sut};
use crate::world::{self, Fault, FaultPlan, World, FINITE_FAULTS};
use serde_json::json;
use std::collections::VecDeque;
use std::time::{Duration, Instant};

pub const PROP: &str = "C17";

pub const KINDS: [Kind; 12] = [Kind::Sma, Kind::Wma, Kind::Sd, Kind::Mad, Kind::Min, Kind::Max, Kind::FastStoch, Kind::Bb, Kind::Cci, Kind::Roc, Kind::Er, Kind::Mfi];

/// ticks a fresh instance needs before the window is the same as the veteran's
pub fn need(kind: Kind, n: usize) -> u64 {
    match kind {
        Kind::Roc | Kind::Er | Kind::Mfi => n as u64 + 1,
        _ => n as u64,
    }
}

fn viol(kind: Kind, step: usize, detail: String, expected: Vec<String>, got: Vec<String>) -> Violation {
    Violation {
        property: PROP.into(),
        class: format!("C17/not-forgotten/{}", kind.name()),
        step,
        detail,
        expected,
        got,
        oracle: "cold-started instance (new) fed only the common suffix; tolerance tau(t)*M (x condition number for ratios), bits for comparison-only kinds".into(),
    }
}

/// magnitude of one tick as the indicator sees it
fn mag(kind: Kind, mode: Mode, x: &Input) -> f64 {
    if mode != Mode::Scalar && kind.bar_uses_hl() {
        x.h.abs().max(x.l.abs()).max(x.c.abs())
    } else {
        x.c.abs()
    }
}

fn tp(x: &Input) -> f64 {
    (x.c + x.h + x.l) / 3.0
}

fn mad_of(v: &[f64]) -> f64 {
    let n = v.len() as f64;
    let m = v.iter().sum::<f64>() / n;
    v.iter().map(|x| (x - m).abs()).sum::<f64>() / n
}

struct Cmp {
    ok: bool,
    skipped: bool,
    ratio: f64,
    what: &'static str,
}

/// Compare veteran output `a` with rookie output `b`.
#[allow(clippy::too_many_arguments)]
fn compare(spec: &NodeSpec, a: &Out, b: &Out, t: u64, m_hist: f64, m_flow: f64, win: &VecDeque<Input>) -> Cmp {
    let kind = spec.kind;
    let n = spec.params.p1;
    let tau = tau(t);
    // below the normal range the f64 grid (spacing 4.9e-324) is coarser than tau*M: never demand
    // agreement finer than a few grid steps
    let floor = f64::from_bits(64);
    let within = |d: f64, tol: f64, what: &'static str| -> Cmp {
        let tol = tol.max(floor);
        let ratio = if tol > 0.0 { d / tol } else if d == 0.0 { 0.0 } else { f64::INFINITY };
        Cmp { ok: d <= tol, skipped: false, ratio, what }
    };
    let skip = Cmp { ok: true, skipped: true, ratio: 0.0, what: "skipped" };
    if a.v.iter().take(a.n as usize).any(|x| !x.is_finite()) && a.same_bits(b) {
        return Cmp { ok: true, skipped: false, ratio: 0.0, what: "bits" };
    }
    match kind {
        Kind::Min | Kind::Max | Kind::FastStoch => {
            // exact: identical bits, or numerically equal (+0.0 vs -0.0: which of two equal window values is
            // remembered legitimately depends on the past; the VALUE must not)
            let ok = a.same_bits(b) || a.v[0] == b.v[0];
            Cmp { ok, skipped: false, ratio: if ok { 0.0 } else { f64::INFINITY }, what: "exact" }
        }
        Kind::Sma | Kind::Wma | Kind::Mad => within((a.v[0] - b.v[0]).abs(), tau * m_hist, "tau*M"),
        Kind::Sd => within((a.v[0] * a.v[0] - b.v[0] * b.v[0]).abs(), tau * m_hist * m_hist, "variance tau*M^2"),
        Kind::Bb => {
            let c1 = within((a.v[0] - b.v[0]).abs(), tau * m_hist, "average tau*M");
            if !c1.ok {
                return c1;
            }
            let mu = spec.params.mult.0;
            let ha = (a.v[1] - a.v[0]) / mu;
            let hb = (b.v[1] - b.v[0]) / mu;
            let la = (a.v[0] - a.v[2]) / mu;
            let lb = (b.v[0] - b.v[2]) / mu;
            // band half-widths are a subtraction of two O(M) numbers: allow their rounding on top of the variance tolerance
            let slack = 8.0 * f64::EPSILON * m_hist;
            let c2 = within(((ha * ha - hb * hb).abs() - slack * (ha.abs() + hb.abs())).max(0.0), tau * m_hist * m_hist, "upper half-width variance tau*M^2");
            if !c2.ok {
                return c2;
            }
            let c3 = within(((la * la - lb * lb).abs() - slack * (la.abs() + lb.abs())).max(0.0), tau * m_hist * m_hist, "lower half-width variance tau*M^2");
            Cmp { ratio: c1.ratio.max(c2.ratio).max(c3.ratio), ..c3 }
        }
        Kind::Roc => {
            if win.len() < n + 1 {
                return skip;
            }
            let d = win[win.len() - 1 - n].c.abs();
            if d == 0.0 {
                // the reference price is exactly zero in both replicas: the reading is +-inf or NaN, and which of them is
                // a function of the window alone - no tolerance applies, but the two replicas must still agree
                let ok = a.same_bits(b) || (a.v[0].is_nan() && b.v[0].is_nan()) || a.v[0] == b.v[0];
                return Cmp { ok, skipped: false, ratio: if ok { 0.0 } else { f64::INFINITY }, what: "zero reference price: same non-finite reading" };
            }
            let local = win.iter().map(|x| x.c.abs()).fold(0.0, f64::max) / d;
            if local > 1e6 {
                return skip;
            }
            let c = m_hist / d * (1.0 + (b.v[0] / 100.0).abs());
            within((a.v[0] - b.v[0]).abs(), tau * c * 100.0, "tau*cond*100")
        }
        Kind::Er => {
            if win.len() < n + 1 {
                return skip;
            }
            let vals: Vec<f64> = win.iter().skip(win.len() - 1 - n).map(|x| x.c).collect();
            let d: f64 = vals.windows(2).map(|w| (w[1] - w[0]).abs()).sum();
            if d == 0.0 {
                return skip;
            }
            let local = vals.iter().map(|x| x.abs()).fold(0.0, f64::max) / d;
            if local > 1e6 {
                return skip;
            }
            let c = m_hist / d * (1.0 + b.v[0].abs());
            let tol = tau * c;
            if tol >= 1.0 {
                return skip;
            }
            within((a.v[0] - b.v[0]).abs(), tol, "tau*cond*1")
        }
        Kind::Mfi => {
            if win.len() < n + 1 {
                return skip;
            }
            let w: Vec<&Input> = win.iter().skip(win.len() - 1 - n).collect();
            // the indicator's own denominator is the SIGNED sum of the raw flows in the window (flows are
            // negative for a negative volume or typical price), so cancellation must be accounted for
            let mut signed = 0.0;
            let mut abs = 0.0;
            for k in 1..w.len() {
                let (p, q) = (tp(w[k - 1]), tp(w[k]));
                if q != p {
                    signed += q * w[k].v;
                    abs += (q * w[k].v).abs();
                }
            }
            let d = signed.abs();
            if d == 0.0 || !(d > 0.0) {
                return skip;
            }
            if abs / d > 1e6 {
                return skip;
            }
            // tolerance as large as the whole output range: the window is numerically meaningless
            // (e.g. a min-positive flow next to running totals that just held ordinary flows)
            let tol0 = tau * (m_flow / d) * 100.0;
            if !(tol0 < 100.0) {
                return skip;
            }
            let r = if b.v[0].is_finite() { b.v[0] } else { a.v[0] };
            let tol = tol0 * (1.0 + (r / 100.0).abs());
            within((a.v[0] - b.v[0]).abs(), tol, "tau*cond*100")
        }
        Kind::Cci => {
            if win.len() < n {
                return skip;
            }
            let tps: Vec<f64> = win.iter().skip(win.len() - n).map(tp).collect();
            let cls: Vec<f64> = win.iter().skip(win.len() - n).map(|x| x.c).collect();
            let d = mad_of(&tps).min(mad_of(&cls));
            if d == 0.0 || !(d > 0.0) {
                return skip;
            }
            let local = tps.iter().chain(cls.iter()).map(|x| x.abs()).fold(0.0, f64::max) / d;
            if local > 1e6 {
                return skip;
            }
            let c = m_hist / d * (1.0 + (b.v[0] * 0.015).abs());
            within((a.v[0] - b.v[0]).abs(), tau * c / 0.015, "tau*cond/0.015")
        }
        _ => skip,
    }
}

struct Run {
    spec: NodeSpec,
    need: u64,
    veteran: Box<dyn Sut>,
    /// (node, inputs seen, veteran uptime at the cold start)
    rookie: Option<(Box<dyn Sut>, u64, u64)>,
    t: u64,
    m_hist: f64,
    m_flow: f64,
    win: VecDeque<Input>,
    last_fault: Fault,
    digest: u64,
    nontrivial: bool,
    worst: f64,
}

impl Run {
    fn feed_one(&mut self, i: usize, x: &Input, st: &mut Stats) -> Option<Violation> {
        let spec = self.spec;
        let kind = spec.kind;
        let n = spec.params.p1;
        self.t += 1;
        self.m_hist = self.m_hist.max(mag(kind, spec.mode, x));
        self.m_flow = self.m_flow.max((tp(x) * x.v).abs());
        if self.win.len() == n + 1 {
            self.win.pop_front();
        }
        self.win.push_back(*x);
        let veteran = &mut self.veteran;
        let (a, used) = on(Side::Subject, || veteran.feed(spec.mode, x));
        self.digest = fnv_u64(self.digest, a.bits()[0]);
        if let Some((r, seen, up)) = &mut self.rookie {
            let (b, _) = on(Side::Reference, || r.feed(spec.mode, x));
            *seen += 1;
            if *seen >= self.need {
                let c = compare(&spec, &a, &b, self.t, self.m_hist, self.m_flow, &self.win);
                if c.skipped {
                    st.skipped += 1;
                } else {
                    st.comparisons += 1;
                    if *up > 0 {
                        self.nontrivial = true;
                        let upc = if *up < n as u64 {
                            0
                        } else if *up < 10 * n as u64 {
                            1
                        } else if *up < 5000 {
                            2
                        } else {
                            3
                        };
                        st.situation(kind, &spec.params, phase((*seen).min(*up), n, false), upc, self.last_fault, used, (*seen - self.need).min(2));
                    }
                    if c.ratio > self.worst {
                        self.worst = c.ratio;
                    }
                    if !c.ok {
                        return Some(viol(
                            kind,
                            i,
                            format!("veteran (uptime={} ticks, cold restart after {} ticks, last fault {}) disagrees with the rookie {} ticks after the cold restart; rule {}; error/tolerance = {:.3e}; M={:e}", self.t, up, self.last_fault.name(), seen, c.what, c.ratio, self.m_hist),
                            b.hex(),
                            a.hex(),
                        ));
                    }
                }
            }
        }
        None
    }
}

pub fn exec(sc: &Scenario, st: &mut Stats) -> Option<Violation> {
    let spec = sc.nodes[0];
    let kind = spec.kind;
    let n = spec.params.p1;
    let mut r = Run {
        spec,
        need: need(kind, n),
        veteran: build_spec(&spec),
        rookie: None,
        t: 0,
        m_hist: 0.0,
        m_flow: 0.0,
        win: VecDeque::with_capacity(n + 2),
        last_fault: Fault::Clean,
        digest: 0,
        nontrivial: false,
        worst: 0.0,
    };
    for (i, op) in sc.ops.iter().enumerate() {
        st.op(op);
        match op {
            Op::Feed { x, f, .. } => {
                if !x.all_finite() {
                    continue; // C17 is stated for finite histories only
                }
                st.ticks += 1;
                st.fault(*f);
                if *f != Fault::Clean && r.rookie.is_none() {
                    r.last_fault = *f;
                }
                if let Some(v) = r.feed_one(i, x, st) {
                    return Some(v);
                }
            }
            Op::Gen { g, skip, len, .. } => {
                let mut w = World::from_desc(g);
                for _ in 0..*skip {
                    let _ = w.clean();
                }
                st.ticks += *len;
                if *len >= 1000 {
                    st.bump("long_uptime_segments");
                }
                for _ in 0..*len {
                    let x = w.clean();
                    if let Some(v) = r.feed_one(i, &x, st) {
                        return Some(v);
                    }
                }
            }
            Op::Cold { .. } => {
                st.fault(Fault::ColdRestart);
                r.rookie = Some((on(Side::Reference, || crate::sut::build_ref(&spec)), 0, r.t));
                if r.t == 0 {
                    r.last_fault = Fault::Clean;
                }
            }
            _ => {}
        }
    }
    st.max(&format!("worst_ratio_{}", kind.name()), r.worst);
    st.max("longest_uptime_ticks", r.t as f64);
    st.digest = st.digest.wrapping_add(fnv_u64(r.digest, sc.ops.len() as u64));
    if r.nontrivial {
        st.nontrivial_runs += 1;
    }
    None
}

pub fn exec_guarded(sc: &Scenario, st: &mut Stats) -> Option<Violation> {
    match guarded(|| exec(sc, st)) {
        Ok(v) => v,
        Err(PanicVerdict::Subject(m)) | Err(PanicVerdict::Reference(m)) => {
            // finite inputs only: a panic here is C12's business, not a forgetting failure
            st.bump("sut_panicked_run_skipped");
            let _ = m;
            None
        }
        Err(PanicVerdict::Harness(m)) => {
            eprintln!("harness error: {}", m);
            std::process::exit(2);
        }
    }
}

pub fn exec_plain(sc: &Scenario) -> Option<Violation> {
    exec_guarded(sc, &mut Stats::default())
}

fn feed_ticks(ops: &mut Vec<Op>, w: &mut World, plan: &FaultPlan, rng: &mut Rng, k: usize, shifts: &mut u32) {
    let mut buf = vec![];
    let mut fed = 0;
    while fed < k {
        buf.clear();
        world::tick(w, plan, rng, &mut buf);
        for (x, f) in buf.drain(..) {
            if f == Fault::RegimeShift {
                *shifts += 1;
            }
            ops.push(Op::Feed { n: 0, x, f });
            fed += 1;
        }
    }
}

pub fn generate(rng: &mut Rng, tier: Tier, long_uptime: bool) -> Scenario {
    let kind = *rng.pick(&KINDS);
    let heavy = matches!(kind, Kind::Mad | Kind::Er | Kind::Cci | Kind::Min | Kind::Max | Kind::FastStoch);
    let n = if rng.chance(0.3) {
        rng.range(1, 5)
    } else if long_uptime {
        rng.log_range(1, if heavy { 48 } else { 400 })
    } else {
        match tier {
            Tier::Quick => rng.log_range(1, 200),
            Tier::Thorough => rng.log_range(1, 1000),
        }
    };
    let mode = if !kind.has_scalar() {
        *rng.pick(&[Mode::Bar, Mode::Item])
    } else {
        *rng.pick(&[Mode::Scalar, Mode::Bar, Mode::Item, Mode::Mixed])
    };
    let spec = NodeSpec { kind, params: Params::new(n, 1, 1, 2.0), mode, dflt: false };
    let giant_ok = matches!(kind, Kind::Sma | Kind::Mad | Kind::Min | Kind::Max | Kind::FastStoch | Kind::Roc | Kind::Er) && !long_uptime;
    let need = need(kind, n) as usize;
    let mut ops = vec![];
    let mut desc = World::random_desc(rng);
    // keep level * 1000^shifts * 1e6 (spike) far from overflow even when squared
    let mut w = World::from_desc(&desc);
    let mut shifts = 0u32;
    let cycles = if long_uptime { 1 } else { rng.range(1, 3) };
    for _ in 0..cycles {
        let fault_free = rng.chance(0.12);
        let plan = if fault_free { FaultPlan::none() } else { FaultPlan::swarm(rng, &FINITE_FAULTS, 0.005, 0.2) };
        if long_uptime {
            // uptime of 1e4..1e6 ticks (quick: 2e4) as generated chunks separated by fault ticks
            let total = match tier {
                Tier::Quick => {
                    if heavy {
                        20_000
                    } else if rng.chance(0.06) {
                        // past 2^20 calls on one instance (periodic re-syncs, narrow counters)
                        rng.range(1_050_000, 1_300_000)
                    } else {
                        rng.log_range(10_000, 200_000)
                    }
                }
                Tier::Thorough => {
                    if heavy {
                        rng.log_range(10_000, 1_000_000)
                    } else {
                        rng.log_range(10_000, 3_000_000)
                    }
                }
            };
            let chunks = rng.range(1, 6);
            for c in 0..chunks {
                desc.seed = rng.u64();
                ops.push(Op::Gen { n: 0, g: desc, skip: 0, len: (total / chunks) as u64, fault: None, every: 0, reset_every: 0, clone_every: 0 });
                if c + 1 < chunks || rng.chance(0.5) {
                    let k = rng.range(1, 3);
                    feed_ticks(&mut ops, &mut w, &plan, rng, k, &mut shifts);
                }
            }
            let k = rng.range(0, n + 3);
            feed_ticks(&mut ops, &mut w, &plan, rng, k, &mut shifts);
        } else {
            let k = match rng.below(6) {
                0 => rng.range(0, 3),
                1 => n,
                2 => n + 1,
                _ => rng.range(0, 3 * n + 50),
            };
            feed_ticks(&mut ops, &mut w, &plan, rng, k, &mut shifts);
            // near-overflow values (|x| = 1.5e308, finite): only for the kinds whose unchanged arithmetic
            // survives them, and with strictly alternating signs so that no partial sum of the window exceeds
            // one giant (two same-signed giants in one window would overflow legitimately). The pair
            // (+G at t, -G at exactly t+n) makes the evicted and the incoming value both extreme.
            if giant_ok && rng.chance(0.06) {
                let g = 1.5e308f64;
                let mut sign = if rng.chance(0.5) { 1.0 } else { -1.0 };
                let events = rng.range(1, 3);
                for _ in 0..events {
                    let gap = match rng.below(3) {
                        0 => 1,
                        1 => n,
                        _ => rng.range(1, 2 * n + 2),
                    };
                    ops.push(Op::Feed { n: 0, x: Input::scalar(sign * g), f: Fault::Huge });
                    sign = -sign;
                    for _ in 1..gap {
                        ops.push(Op::Feed { n: 0, x: w.clean(), f: Fault::Clean });
                    }
                    ops.push(Op::Feed { n: 0, x: Input::scalar(sign * g), f: Fault::Huge });
                    sign = -sign;
                    let k = rng.range(0, n + 2);
                    feed_ticks(&mut ops, &mut w, &FaultPlan::none(), rng, k, &mut shifts);
                }
            }
            // bias: an outlier right before the restart (it must be gone n ticks later)
            if !fault_free && rng.chance(0.3) {
                let f = *rng.pick(&[Fault::Spike10, Fault::Spike1e3, Fault::Spike1e6]);
                let burst = if rng.chance(0.3) { rng.range(2, 4) } else { 1 };
                for _ in 0..burst {
                    let x = world::corrupt(rng, f, w.clean());
                    ops.push(Op::Feed { n: 0, x, f });
                }
            }
        }
        ops.push(Op::Cold { n: 0 });
        // common suffix: clean, or (30%) with finite disturbances that both replicas see
        let plan2 = if rng.chance(0.3) {
            let mut p = FaultPlan::swarm(rng, &FINITE_FAULTS, 0.005, 0.1);
            p.enabled.retain(|(f, _)| *f != Fault::RegimeShift);
            p
        } else {
            FaultPlan::none()
        };
        if rng.chance(0.5) {
            let d2 = World::random_desc(rng);
            let lvl = w.level;
            w = World::from_desc(&d2);
            w.level = lvl;
            w.shift_level(1.0);
        }
        let k = need + rng.range(1, 40);
        feed_ticks(&mut ops, &mut w, &plan2, rng, k, &mut shifts);
    }
    let _ = Fx(0.0);
    Scenario { property: PROP.into(), stage: if long_uptime { "long-uptime".into() } else { "seeded".into() }, nodes: vec![spec], ops, workers: 0 }
}

/// mega stage (fixed corpus): the O(1)-per-call windowed kinds with windows around/beyond 2^16 slots:
/// a prefix of 2.5n ticks with a spike, cold restart, common suffix of need+60 ticks
fn mega_scenario(idx: u64, periods: &[usize]) -> Scenario {
    let kinds = [Kind::Sma, Kind::Wma, Kind::Sd, Kind::Bb, Kind::Roc, Kind::Mfi];
    let kind = kinds[(idx as usize) % kinds.len()];
    let p = periods[(idx as usize / kinds.len()) % periods.len()];
    let mode = if kind.has_scalar() && idx % 2 == 0 { Mode::Scalar } else { Mode::Bar };
    let spec = NodeSpec { kind, params: Params::new(p, 1, 1, 2.0), mode, dflt: false };
    let n = p as u64;
    let g = world::StreamDesc { regime: [world::Regime::Walk, world::Regime::Saw, world::Regime::Alt][(idx % 3) as usize], level: Fx(25.0), saw: 9, seed: idx, neg: false };
    let mut w = World::from_desc(&g);
    let spike = world::corrupt_fixed(Fault::Spike1e3, w.clean(), 0);
    let ops = vec![
        Op::Gen { n: 0, g, skip: 1, len: 2 * n + n / 2, fault: None, every: 0, reset_every: 0, clone_every: 0 },
        Op::Feed { n: 0, x: spike, f: Fault::Spike1e3 },
        Op::Cold { n: 0 },
        Op::Gen { n: 0, g, skip: 3 * n, len: need(kind, p) + 60, fault: None, every: 0, reset_every: 0, clone_every: 0 },
    ];
    Scenario { property: PROP.into(), stage: "mega".into(), nodes: vec![spec], ops, workers: 0 }
}

pub fn run(tier: Tier) -> i32 {
    let c = report::ctx();
    let start = Instant::now();
    let mut total = Stats::default();
    let (short_runs, long_runs) = match tier {
        Tier::Quick => (600_000u64, 1_500u64),
        Tier::Thorough => (20_000_000u64, 6_000u64),
    };
    let wall_cap = match tier {
        Tier::Quick => Duration::from_secs(120),
        Tier::Thorough => Duration::from_secs(1500),
    };
    let (short_runs, long_runs) = (crate::gen::scaled(short_runs), crate::gen::scaled(long_runs));
    let seeded = run_stage("seeded", short_runs, wall_cap, &mut total, &|i| generate(&mut Rng::new(run_seed(c.seed, PROP, "seeded", i)), tier, false), &exec_guarded, &[0, 1], 24);
    let mega_periods: &[usize] = match tier {
        Tier::Quick => &[65_535, 65_536, 65_537],
        Tier::Thorough => &crate::gen::MEGA_PERIODS,
    };
    let mega = if seeded.found.is_none() && !crate::gen::skip_fixed() { Some(run_stage("mega", 6 * mega_periods.len() as u64, wall_cap, &mut total, &|i| mega_scenario(i, mega_periods), &exec_guarded, &[], 4)) } else { None };
    let long = if seeded.found.is_none() && mega.as_ref().map_or(true, |m| m.found.is_none()) {
        Some(run_stage("long-uptime", long_runs, wall_cap, &mut total, &|i| generate(&mut Rng::new(run_seed(c.seed, PROP, "long-uptime", i)), tier, true), &exec_guarded, &[0], 24))
    } else {
        None
    };
    let mut stages = vec![&seeded];
    if let Some(s) = &mega {
        stages.push(s);
    }
    if let Some(s) = &long {
        stages.push(s);
    }
    let violations = conclude(&total, &stages);
    let wall = start.elapsed().as_secs_f64();
    let mut need_f: Vec<Fault> = FINITE_FAULTS.iter().cloned().filter(|f| !matches!(f, Fault::Drop)).collect();
    need_f.push(Fault::ColdRestart);
    let dead: Vec<&str> = need_f.iter().map(|f| f.name()).filter(|n| total.faults.get(n).copied().unwrap_or(0) == 0).collect();
    report::write_evidence(
        &total,
        report::EvidenceMeta {
            level: "exploration",
            rule: "one evaluation = one two-replica scenario: a veteran consumes a prefix in a random market regime under finite faults (spikes x10/x1e3/x1e6 on price or volume, single and burst, regime shifts x1000, stalls, duplicates, drops, exact zeros, -0.0, min-positive and subnormal values, zero volume) of 0..3n+50 ticks, or a long uptime of 1e4..3e6 ticks (quick: up to 1.3e6, i.e. past 2^20 calls); then a rookie is cold-started (new) and both consume a common suffix of n+1..n+41 ticks; from the tick at which the rookie has seen n (n+1 for ROC/ER/MFI) inputs every output pair is compared (bits for Minimum/Maximum/FastStochastic; tau(t)*M for SMA/WMA/MAD/BB.average; variance-level tau(t)*M^2 for SD and BB half-widths; tau(t)*cond*scale for ROC/ER/MFI/CCI with the condition number computed from the harness's own copy of the window). distinct_nontrivial counts distinct situations (indicator, period bucket, veteran uptime class, last fault in the prefix, input mode, position after the recovery bound) in which a comparison was made with a non-empty prefix; ill-conditioned windows (zero denominator, window-local condition number > 1e6, tolerance >= output range) are skipped and counted in oracle_skipped_ill_conditioned.",
            assumptions: vec![
                "finite inputs only: tolerances are defined through the largest magnitude M of the history".into(),
                "condition number for ratio indicators = M_hist/|denominator| * (1+|ratio|), denominators recomputed by the harness from its copy of the common window".into(),
                "SD and Bollinger half-widths are compared as variances (the convention of C01/C13/C15)".into(),
                "sampling, not proof".into(),
            ],
            wall_s: wall,
            violations,
            exhaustive: false,
            extra: json!({"seeded": seeded.json(), "mega_windows": {"periods": mega_periods, "stage": mega.as_ref().map(|s| s.json())}, "long_uptime": long.as_ref().map(|s| s.json()), "dead_fault_kinds": dead,
                           "worst_error_over_tolerance": total.maxima}),
        },
    );
    println!("C17 {:?}: seeded {} runs, long-uptime {} runs, {} ticks, {} compared, {} skipped, {} situations, {:.1}s, violations={}", tier, seeded.executed, long.as_ref().map_or(0, |s| s.executed), total.ticks, total.comparisons, total.skipped, total.situations.len(), wall, violations);
    for (k, v) in &total.maxima {
        println!("  {} = {:.3e}", k, v);
    }
    if violations > 0 {
        return 1;
    }
    if !dead.is_empty() && !seeded.truncated {
        eprintln!("harness error: fault kinds never fired: {:?}", dead);
        return 2;
    }
    0
}
