//! Reach measurement. Nothing here draws from the PRNG or reads a clock; every aggregate is
//! order-independent so results are identical for any worker count.

use crate::rng::{fnv, fnv_u64};
use crate::scenario::{Op, Scenario};
use crate::sut::{Kind, Mode, Params};
use crate::world::Fault;
use std::collections::{BTreeMap, HashSet};
use std::hash::{BuildHasherDefault, Hasher};

/// identity hasher: the keys are already FNV hashes
#[derive(Default, Clone)]
pub struct IdHasher(u64);
impl Hasher for IdHasher {
    fn finish(&self) -> u64 {
        self.0
    }
    fn write(&mut self, b: &[u8]) {
        for x in b {
            self.0 = (self.0 << 8) | *x as u64;
        }
    }
    fn write_u64(&mut self, x: u64) {
        self.0 = x;
    }
}
pub type U64Set = HashSet<u64, BuildHasherDefault<IdHasher>>;

#[derive(Clone, Copy, PartialEq, Eq, Hash, Debug, PartialOrd, Ord)]
pub enum Phase {
    Fresh,
    JustReset,
    Warming,
    ExactlyFull,
    Wrapped1,
    Wrapped10,
}

pub fn phase(count_since_reset: u64, window: usize, was_reset: bool) -> Phase {
    let n = window.max(1) as u64;
    if count_since_reset == 0 {
        if was_reset {
            Phase::JustReset
        } else {
            Phase::Fresh
        }
    } else if count_since_reset < n {
        Phase::Warming
    } else if count_since_reset == n {
        Phase::ExactlyFull
    } else if count_since_reset < 10 * n {
        Phase::Wrapped1
    } else {
        Phase::Wrapped10
    }
}

pub fn period_bucket(p: usize) -> u8 {
    match p {
        0 => 0,
        1 => 1,
        2 => 2,
        3..=5 => 3,
        6..=20 => 4,
        21..=200 => 5,
        _ => 6,
    }
}

#[derive(Default, Clone)]
pub struct Stats {
    pub runs: u64,
    pub nontrivial_runs: u64,
    pub ticks: u64,
    pub comparisons: u64,
    pub skipped: u64,
    pub counters: BTreeMap<String, u64>,
    pub maxima: BTreeMap<String, f64>,
    pub faults: BTreeMap<&'static str, u64>,
    pub ops: BTreeMap<&'static str, u64>,
    pub kinds: BTreeMap<&'static str, u64>,
    /// hashes of distinct situations in which the oracle compared something
    pub situations: U64Set,
    /// hashes of the first 32 (op kind, node) pairs of every run
    pub prefixes: U64Set,
    /// order-independent digest of everything every run observed (sum of per-run digests)
    pub digest: u64,
    pub samples: Vec<serde_json::Value>,
    pub known_findings: Vec<String>,
}

impl Stats {
    pub fn bump(&mut self, k: &str) {
        *self.counters.entry(k.to_string()).or_insert(0) += 1;
    }
    pub fn add(&mut self, k: &str, n: u64) {
        *self.counters.entry(k.to_string()).or_insert(0) += n;
    }
    pub fn max(&mut self, k: &str, v: f64) {
        let e = self.maxima.entry(k.to_string()).or_insert(0.0);
        if v > *e {
            *e = v;
        }
    }
    pub fn fault(&mut self, f: Fault) {
        *self.faults.entry(f.name()).or_insert(0) += 1;
    }
    pub fn op(&mut self, o: &Op) {
        *self.ops.entry(o.kind_name()).or_insert(0) += 1;
    }
    pub fn kind(&mut self, k: Kind) {
        *self.kinds.entry(k.name()).or_insert(0) += 1;
    }
    #[allow(clippy::too_many_arguments)]
    pub fn situation(&mut self, kind: Kind, p: &Params, ph: Phase, opk: u64, last_fault: Fault, mode: Mode, extra: u64) {
        let mut h = fnv_u64(0, kind.idx() as u64);
        h = fnv_u64(h, period_bucket(p.window(kind)) as u64);
        h = fnv_u64(h, ph as u64);
        h = fnv_u64(h, opk);
        h = fnv(h, last_fault.name().as_bytes());
        h = fnv_u64(h, mode as u64);
        h = fnv_u64(h, extra);
        self.situations.insert(h);
    }
    pub fn prefix(&mut self, sc: &Scenario) {
        let mut h = 0u64;
        for op in sc.ops.iter().take(32) {
            h = fnv_u64(h, op.kind_code());
            h = fnv_u64(h, op.node() as u64);
            if let Op::Feed { f, .. } = op {
                h = fnv(h, f.name().as_bytes());
            }
        }
        for n in &sc.nodes {
            h = fnv_u64(h, n.kind.idx() as u64);
        }
        self.prefixes.insert(h);
    }
    pub fn compact(&mut self) {
    }
    pub fn merge(&mut self, o: Stats) {
        self.runs += o.runs;
        self.nontrivial_runs += o.nontrivial_runs;
        self.ticks += o.ticks;
        self.comparisons += o.comparisons;
        self.skipped += o.skipped;
        for (k, v) in o.counters {
            *self.counters.entry(k).or_insert(0) += v;
        }
        for (k, v) in o.maxima {
            let e = self.maxima.entry(k).or_insert(0.0);
            if v > *e {
                *e = v;
            }
        }
        for (k, v) in o.faults {
            *self.faults.entry(k).or_insert(0) += v;
        }
        for (k, v) in o.ops {
            *self.ops.entry(k).or_insert(0) += v;
        }
        for (k, v) in o.kinds {
            *self.kinds.entry(k).or_insert(0) += v;
        }
        self.situations.extend(o.situations);
        self.prefixes.extend(o.prefixes);
        self.digest = self.digest.wrapping_add(o.digest);
        self.samples.extend(o.samples);
        self.known_findings.extend(o.known_findings);
        self.compact();
    }
}
