//! Shrink a failing scenario while the same violation class persists: ddmin over the op list,
//! node removal, value simplification, parameter shrinking, to a fixpoint. Every candidate is a
//! full re-execution of the explicit op list (micro-seconds), no PRNG involved.

use crate::scenario::{Op, Scenario, Violation};
use crate::sut::Input;
use std::time::{Duration, Instant};

pub fn minimise(sc: &Scenario, v: &Violation, exec: &dyn Fn(&Scenario) -> Option<Violation>, budget: Duration) -> (Scenario, Violation) {
    let start = Instant::now();
    let class = v.class.clone();
    let mut best = sc.clone();
    let mut bestv = v.clone();
    let still = |c: &Scenario| -> Option<Violation> {
        match exec(c) {
            Some(v2) if v2.class == class => Some(v2),
            _ => None,
        }
    };
    // ops after the failing step are irrelevant
    if bestv.step + 1 < best.ops.len() {
        let mut c = best.clone();
        c.ops.truncate(bestv.step + 1);
        if let Some(v2) = still(&c) {
            best = c;
            bestv = v2;
        }
    }
    let mut progress = true;
    let mut rounds = 0;
    while progress && start.elapsed() < budget && rounds < 50 {
        progress = false;
        rounds += 1;
        // 1. ddmin: drop chunks of ops
        let mut chunk = (best.ops.len() / 2).max(1);
        while chunk >= 1 && start.elapsed() < budget {
            let mut i = 0;
            let mut any = false;
            while i < best.ops.len() && start.elapsed() < budget {
                let end = (i + chunk).min(best.ops.len());
                let mut c = best.clone();
                c.ops.drain(i..end);
                if let Some(v2) = still(&c) {
                    best = c;
                    bestv = v2;
                    any = true;
                    progress = true;
                } else {
                    i = end;
                }
            }
            if chunk == 1 && !any {
                break;
            }
            if !any {
                chunk /= 2;
            }
            if chunk == 0 {
                break;
            }
        }
        // 2. drop whole nodes (all ops touching a node)
        let max_node = best.ops.iter().map(|o| o.node()).max().unwrap_or(0);
        for n in (0..=max_node).rev() {
            let mut c = best.clone();
            c.ops.retain(|o| o.node() != n && !matches!(o, Op::Fork { dst, .. } if *dst == n));
            if c.ops.len() < best.ops.len() {
                if let Some(v2) = still(&c) {
                    best = c;
                    bestv = v2;
                    progress = true;
                }
            }
        }
        // 3. shrink generated streams and counts
        for i in 0..best.ops.len() {
            loop {
                let mut c = best.clone();
                let changed = match &mut c.ops[i] {
                    Op::Gen { len, .. } if *len > 1 => {
                        *len /= 2;
                        true
                    }
                    Op::RoundTrip { times, .. } if *times > 1 => {
                        *times -= 1;
                        true
                    }
                    Op::Crash { recrash, .. } if *recrash > 0 => {
                        *recrash = 0;
                        true
                    }
                    _ => false,
                };
                if !changed || start.elapsed() > budget {
                    break;
                }
                if let Some(v2) = still(&c) {
                    best = c;
                    bestv = v2;
                    progress = true;
                } else {
                    break;
                }
            }
        }
        // 4. simplify values: finite values -> small integers, bars -> scalar-shaped ticks
        for i in 0..best.ops.len() {
            if start.elapsed() > budget {
                break;
            }
            if let Op::Feed { x, n, f } = best.ops[i].clone() {
                let mut cands: Vec<Input> = vec![];
                let small = ((i % 7) + 1) as f64;
                if x.all_finite() {
                    cands.push(Input::scalar(small));
                    cands.push(Input::scalar(x.c));
                    cands.push(Input { o: small, h: small + 1.0, l: small - 1.0, c: small, v: 1.0 });
                } else {
                    // keep the non-finite field pattern, simplify the finite rest
                    let fs = x.fields();
                    let mut g = [small; 5];
                    for k in 0..5 {
                        if !fs[k].is_finite() {
                            g[k] = fs[k];
                        }
                    }
                    cands.push(Input::from_fields(g));
                    cands.push(Input::scalar(x.c));
                }
                if cands[0] == x {
                    continue;
                }
                for cnd in cands {
                    if cnd == x {
                        continue;
                    }
                    let mut c = best.clone();
                    c.ops[i] = Op::Feed { n, x: cnd, f };
                    if let Some(v2) = still(&c) {
                        best = c;
                        bestv = v2;
                        progress = true;
                        break;
                    }
                }
            }
        }
        // 5. shrink parameters
        for ni in 0..best.nodes.len() {
            if best.nodes[ni].dflt {
                continue; // the parameters of a Default-built subject are not ours to change
            }
            for which in 0..3 {
                let cur = match which {
                    0 => best.nodes[ni].params.p1,
                    1 => best.nodes[ni].params.p2,
                    _ => best.nodes[ni].params.p3,
                };
                if cur <= 1 {
                    continue;
                }
                for cand in [1usize, 2, 3, cur / 2, cur - 1] {
                    if cand >= cur || cand == 0 || start.elapsed() > budget {
                        continue;
                    }
                    let mut c = best.clone();
                    match which {
                        0 => c.nodes[ni].params.p1 = cand,
                        1 => c.nodes[ni].params.p2 = cand,
                        _ => c.nodes[ni].params.p3 = cand,
                    }
                    if let Some(v2) = still(&c) {
                        best = c;
                        bestv = v2;
                        progress = true;
                        break;
                    }
                }
            }
        }
    }
    (best, bestv)
}
