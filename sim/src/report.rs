//! Reporting: replay files, evidence files, known findings, exit codes.
//! Exit codes: 0 held, 1 violation not listed in known_findings.json, 2 harness error.

use crate::minimise::minimise;
use crate::scenario::{ReplayFile, Scenario, Violation};
use crate::stats::Stats;
use serde::{Deserialize, Serialize};
use serde_json::json;
use std::path::PathBuf;
use std::sync::{Mutex, OnceLock};
use std::time::Duration;

#[derive(Clone, Debug)]
pub struct Ctx {
    pub prop: String,
    pub tier: String,
    pub seed: u64,
    pub jobs: usize,
    pub verif: PathBuf,
    pub known: Vec<KnownFinding>,
    /// when set, no files are written (used by the determinism self-test children)
    pub dry: bool,
}

pub static CTX: OnceLock<Ctx> = OnceLock::new();
pub static STAGE: Mutex<String> = Mutex::new(String::new());

pub fn ctx() -> &'static Ctx {
    CTX.get().expect("ctx")
}
pub fn set_stage(s: &str) {
    *STAGE.lock().unwrap() = s.to_string();
}
pub fn stage() -> String {
    STAGE.lock().unwrap().clone()
}

#[derive(Clone, Debug, Serialize, Deserialize)]
pub struct KnownMatch {
    pub class_prefix: String,
    #[serde(default)]
    pub detail_contains: Option<String>,
    /// the minimised scenario must contain a Feed op with a NaN in it
    #[serde(default)]
    pub needs_nan_input: bool,
    /// the violation must have fired at a veteran uptime of at least this many ticks
    #[serde(default)]
    pub min_uptime: Option<u64>,
    /// the minimised scenario must contain a bar whose raw money flow (typical price x volume) is negative
    #[serde(default)]
    pub needs_negative_money_flow: bool,
}

#[derive(Clone, Debug, Serialize, Deserialize)]
pub struct KnownFinding {
    pub id: String,
    pub status: String, // "known" | "fixed"
    pub property: String,
    #[serde(default)]
    pub commit: Option<String>,
    pub what: String,
    #[serde(rename = "match")]
    pub m: KnownMatch,
}

#[derive(Clone, Debug, Serialize, Deserialize, Default)]
pub struct KnownFile {
    pub findings: Vec<KnownFinding>,
}

pub fn load_known(verif: &PathBuf) -> Vec<KnownFinding> {
    let p = verif.join("known_findings.json");
    match std::fs::read_to_string(&p) {
        Ok(s) => match serde_json::from_str::<KnownFile>(&s) {
            Ok(k) => k.findings,
            Err(e) => {
                eprintln!("harness error: cannot parse {}: {}", p.display(), e);
                std::process::exit(2);
            }
        },
        Err(_) => vec![],
    }
}

/// Does a (minimised) violation match a finding that is recorded as still open ("known")?
/// Entries with status "fixed" suppress nothing.
pub fn match_known(sc: &Scenario, v: &Violation) -> Option<&'static KnownFinding> {
    ctx().known.iter().find(|k| {
        if k.status != "known" || k.property != v.property || !v.class.starts_with(&k.m.class_prefix) {
            return false;
        }
        if let Some(d) = &k.m.detail_contains {
            if !v.detail.contains(d.as_str()) {
                return false;
            }
        }
        if k.m.needs_nan_input {
            let has = sc.ops.iter().any(|o| matches!(o, crate::scenario::Op::Feed { x, .. } if x.fields().iter().any(|f| f.is_nan())));
            if !has {
                return false;
            }
        }
        if k.m.needs_negative_money_flow {
            let has = sc.ops.iter().any(|o| matches!(o, crate::scenario::Op::Feed { x, .. } if ((x.c + x.h + x.l) / 3.0) * x.v < 0.0));
            if !has {
                return false;
            }
        }
        if let Some(u) = k.m.min_uptime {
            let up = v.detail.split("uptime=").nth(1).and_then(|s| s.split_whitespace().next()).and_then(|s| s.parse::<u64>().ok()).unwrap_or(0);
            if up < u {
                return false;
            }
        }
        true
    })
}

pub enum Triage {
    Known(String),
    New(Box<(Scenario, Violation)>),
}

/// Minimise a raw violation and decide whether it is a listed known finding.
pub fn triage(sc: Scenario, v: Violation, exec: &dyn Fn(&Scenario) -> Option<Violation>) -> Triage {
    let (msc, mv) = minimise(&sc, &v, exec, Duration::from_secs(20));
    if let Some(k) = match_known(&msc, &mv) {
        return Triage::Known(format!("KNOWN-FINDING: property={} {} [{}]", k.property, k.what, k.id));
    }
    Triage::New(Box::new((msc, mv)))
}

/// Write the replay file for a new violation, verify it reproduces in-process, print the
/// VIOLATION line. Returns the path.
pub fn report_violation(run: u64, original_ops: usize, sc: &Scenario, v: &Violation) -> String {
    let c = ctx();
    let dir = c.verif.join("replays");
    let path = dir.join(format!("{}-{}-{}-{}{}.json", c.prop, sc.stage, c.seed, run, if profile() == "shipped" { "-shipped" } else { "" }));
    let rf = ReplayFile {
        property: v.property.clone(),
        class: v.class.clone(),
        seed: c.seed,
        run,
        minimised: sc.ops.len() < original_ops || original_ops == 0,
        original_ops,
        scenario: sc.clone(),
        violation: v.clone(),
        replay_cmd: format!("/verif/check replay {}", path.display()),
        profile: profile().into(),
    };
    if !c.dry {
        let _ = std::fs::create_dir_all(&dir);
        if let Err(e) = std::fs::write(&path, serde_json::to_string_pretty(&rf).unwrap()) {
            eprintln!("harness error: cannot write replay file {}: {}", path.display(), e);
            std::process::exit(2);
        }
    }
    println!("violation class={} step={} detail={}", v.class, v.step, v.detail);
    println!("  expected={:?}", v.expected);
    println!("  got     ={:?}", v.got);
    println!("  oracle  ={}", v.oracle);
    println!("VIOLATION property={} replay={}", v.property, path.display());
    path.display().to_string()
}

/// build configuration of this binary
pub fn profile() -> &'static str {
    if cfg!(debug_assertions) {
        "checked"
    } else {
        "shipped"
    }
}

/// summary of the reduced pass in the shipped build configuration (set by main before the stages run)
pub static SHIPPED: std::sync::OnceLock<serde_json::Value> = std::sync::OnceLock::new();

pub fn hang_exit(run: u64, sc: Option<(&Scenario, usize, bool)>) -> ! {
    let c = ctx();
    let st = stage();
    let dir = c.verif.join("replays");
    let _ = std::fs::create_dir_all(&dir);
    let path = dir.join(format!("{}-{}-{}-{}-hang{}.json", c.prop, st, c.seed, run, if profile() == "shipped" { "-shipped" } else { "" }));
    if let Some((sc, original_ops, minimised)) = sc {
        let v = Violation {
            property: c.prop.clone(),
            class: format!("{}/hang", c.prop),
            step: 0,
            detail: "a call did not return: the run made no progress within the hang limit".into(),
            expected: vec!["every call returns".into()],
            got: vec!["no progress within the hang limit (300 s by default)".into()],
            oracle: "watchdog over the per-run heartbeat".into(),
        };
        let rf = ReplayFile { property: c.prop.clone(), class: v.class.clone(), seed: c.seed, run, minimised, original_ops, scenario: sc.clone(), violation: v, replay_cmd: format!("/verif/check replay {}", path.display()), profile: profile().into() };
        let _ = std::fs::write(&path, serde_json::to_string_pretty(&rf).unwrap());
        println!("VIOLATION property={} replay={}", c.prop, path.display());
        std::process::exit(1);
    }
    let body = json!({"property": c.prop, "class": format!("{}/hang", c.prop), "seed": c.seed, "run": run, "stage": st,
        "minimised": false, "note": "a run made no progress within the hang limit; re-run the batch with the same VERIF_SEED to reproduce",
        "replay_cmd": format!("VERIF_SEED={} /verif/check {} {}", c.seed, c.prop, c.tier)});
    let _ = std::fs::write(&path, serde_json::to_string_pretty(&body).unwrap());
    println!("VIOLATION property={} replay={}", c.prop, path.display());
    std::process::exit(1);
}

pub struct EvidenceMeta<'a> {
    pub level: &'a str,
    pub rule: &'a str,
    pub assumptions: Vec<String>,
    pub wall_s: f64,
    pub violations: u64,
    pub exhaustive: bool,
    pub extra: serde_json::Value,
}

pub fn write_evidence(stats: &Stats, m: EvidenceMeta) {
    let c = ctx();
    println!("DIGEST {} seed={} runs={} ticks={} comparisons={} digest={:016x}", c.prop, c.seed, stats.runs, stats.ticks, stats.comparisons, stats.digest);
    if c.dry || std::env::var("VERIF_SHIPPED").is_ok() {
        // the shipped-configuration pass is a child of the real check: its summary goes into the parent's evidence
        return;
    }
    let mut samples = stats.samples.clone();
    samples.truncate(6);
    let per_hour = |n: u64| -> u64 {
        if m.wall_s > 0.0 {
            (n as f64 * 3600.0 / m.wall_s) as u64
        } else {
            0
        }
    };
    let mut cov = json!({
        "evaluations": stats.runs,
        "distinct_nontrivial": stats.situations.len(),
        "rule": m.rule,
        "samples": samples,
        "exhaustive": m.exhaustive,
        "nontrivial_runs": stats.nontrivial_runs,
        "runs_per_hour": per_hour(stats.runs),
        "seeds_per_hour": per_hour(stats.runs),
        "simulated_ticks": stats.ticks,
        "simulated_time_note": "simulated time = ticks delivered by the feed (one bar = one tick); no code under test reads a clock",
        "oracle_comparisons": stats.comparisons,
        "oracle_skipped_ill_conditioned": stats.skipped,
        "fault_kinds_fired": stats.faults,
        "op_kinds": stats.ops,
        "runs_per_indicator": stats.kinds,
        "distinct_schedule_prefixes": stats.prefixes.len(),
        "counters": stats.counters,
        "maxima": stats.maxima,
        "output_digest": format!("{:016x}", stats.digest),
        "known_findings_hit": stats.known_findings.len(),
        "shipped_configuration_pass": SHIPPED.get().cloned().unwrap_or(json!({"status": "not run"})),
        "components": {
            "real": ["all 22 ta indicators, DataItem and builder, their Clone/Reset/Display/Debug and serde derives (path dependency on /repo, rebuilt from the working tree)", "bincode 1.3.3", "serde 1.0", "serde_json 1.0 (float_roundtrip) for the JSON round-trips of C06/C12"],
            "stub": ["market/world model and feed", "fault injector", "simulated disk", "op scheduler", "memory cap / allocator accounting"]
        }
    });
    if let (Some(a), Some(b)) = (cov.as_object_mut(), m.extra.as_object()) {
        for (k, v) in b {
            a.insert(k.clone(), v.clone());
        }
    }
    let ev = json!({
        "property_id": c.prop,
        "tier": if c.tier == "thorough" { "thorough" } else { "quick" },
        "seed": c.seed,
        "level": m.level,
        "coverage": cov,
        "assumptions": m.assumptions,
        "wall_s": m.wall_s,
        "violations": m.violations,
    });
    let dir = c.verif.join("evidence");
    let _ = std::fs::create_dir_all(&dir);
    let path = dir.join(format!("{}.json", c.prop));
    if let Err(e) = std::fs::write(&path, serde_json::to_string_pretty(&ev).unwrap()) {
        eprintln!("harness error: cannot write evidence {}: {}", path.display(), e);
        std::process::exit(2);
    }
}
