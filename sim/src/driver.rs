//! Glue shared by all property checks: run a stage (generate -> execute -> triage), finish a check
//! (report, known findings, evidence, exit code).

use crate::report::{self, Triage};
use crate::runner::{run_batch, Found, RunResult};
use crate::scenario::{Scenario, Violation};
use crate::stats::Stats;
use serde_json::json;
use std::time::Duration;

pub type Exec = dyn Fn(&Scenario, &mut Stats) -> Option<Violation> + Sync;

pub struct StageOut {
    pub name: String,
    pub runs: u64,
    pub executed: u64,
    pub truncated: bool,
    pub found: Option<(Found, usize)>,
}

impl StageOut {
    pub fn json(&self) -> serde_json::Value {
        json!({"runs": self.runs, "executed": self.executed, "truncated_by_wall_clock": self.truncated})
    }
}

/// Run `runs` scenarios produced by `gen(index)` through `exec`, with triage (minimise + known
/// findings) of every violation. Statistics are merged into `total`.
pub fn run_stage(name: &str, runs: u64, wall_cap: Duration, total: &mut Stats, gen: &(dyn Fn(u64) -> Scenario + Sync), exec: &Exec, samples: &[u64], sample_ops: usize) -> StageOut {
    run_stage_opt(name, runs, wall_cap, total, gen, exec, samples, sample_ops, false)
}

/// Execute one scenario in a freshly started child process (no state left behind by other runs,
/// no other thread running). Used by C05, where the defect looked for IS hidden process state.
pub fn hermetic_exec(prop: &str, sc: &Scenario) -> Result<Option<Violation>, String> {
    use std::io::Write;
    let exe = std::env::current_exe().map_err(|e| e.to_string())?;
    let mut ch = std::process::Command::new(exe)
        .args(["exec-stdin", prop])
        .env("VERIF_DRY", "1")
        .stdin(std::process::Stdio::piped())
        .stdout(std::process::Stdio::piped())
        .stderr(std::process::Stdio::null())
        .spawn()
        .map_err(|e| e.to_string())?;
    ch.stdin.take().unwrap().write_all(serde_json::to_string(sc).unwrap().as_bytes()).map_err(|e| e.to_string())?;
    let out = ch.wait_with_output().map_err(|e| e.to_string())?;
    let text = String::from_utf8_lossy(&out.stdout);
    let line = text.lines().find(|l| l.starts_with("RESULT ")).ok_or_else(|| format!("child gave no result: {}", text))?;
    serde_json::from_str::<Option<Violation>>(&line[7..]).map_err(|e| e.to_string())
}

/// Like `hermetic_exec`, but the child is killed when it has not answered within `limit`: Ok(None) = it did not finish.
pub fn hermetic_exec_timeout(prop: &str, sc: &Scenario, limit: Duration) -> Result<Option<Option<Violation>>, String> {
    use std::io::{Read, Write};
    let exe = std::env::current_exe().map_err(|e| e.to_string())?;
    let mut ch = std::process::Command::new(exe)
        .args(["exec-stdin", prop])
        .env("VERIF_DRY", "1")
        .stdin(std::process::Stdio::piped())
        .stdout(std::process::Stdio::piped())
        .stderr(std::process::Stdio::null())
        .spawn()
        .map_err(|e| e.to_string())?;
    ch.stdin.take().unwrap().write_all(serde_json::to_string(sc).unwrap().as_bytes()).map_err(|e| e.to_string())?;
    let mut out = ch.stdout.take().unwrap();
    let reader = std::thread::spawn(move || {
        let mut text = String::new();
        let _ = out.read_to_string(&mut text);
        text
    });
    let t0 = std::time::Instant::now();
    loop {
        match ch.try_wait() {
            Ok(Some(_)) => break,
            Ok(None) if t0.elapsed() > limit => {
                let _ = ch.kill();
                let _ = ch.wait();
                let _ = reader.join();
                return Ok(None);
            }
            Ok(None) => std::thread::sleep(Duration::from_millis(2)),
            Err(e) => return Err(e.to_string()),
        }
    }
    let text = reader.join().map_err(|_| "reader thread died".to_string())?;
    let line = text.lines().find(|l| l.starts_with("RESULT ")).ok_or_else(|| format!("child gave no result: {}", text))?;
    serde_json::from_str::<Option<Violation>>(&line[7..]).map(Some).map_err(|e| e.to_string())
}

/// Shrink a scenario that does not finish: every candidate runs in a fresh child process that is killed after
/// `trial`; the result is kept only if it still does not finish within the (longer) limit `replay` uses.
/// The verdict itself was already reached by the batch watchdog; this only makes the replay file small.
pub fn minimise_hang(prop: &str, sc: &Scenario) -> Option<Scenario> {
    let trial = Duration::from_secs(5);
    let hang = Violation {
        property: prop.into(),
        class: format!("{}/hang", prop),
        step: 0,
        detail: String::new(),
        expected: vec![],
        got: vec![],
        oracle: String::new(),
    };
    let exec = |c: &Scenario| -> Option<Violation> {
        match hermetic_exec_timeout(prop, c, trial) {
            Ok(None) => Some(hang.clone()),
            _ => None,
        }
    };
    exec(sc)?;
    let (min, _) = crate::minimise::minimise(sc, &hang, &exec, Duration::from_secs(240));
    match hermetic_exec_timeout(prop, &min, Duration::from_secs(30)) {
        Ok(None) => Some(min),
        _ => None,
    }
}

/// `hermetic`: violations are confirmed and minimised in fresh child processes; a violation that
/// cannot be confirmed that way is remembered but the search goes on for one that can.
#[allow(clippy::too_many_arguments)]
pub fn run_stage_opt(name: &str, runs: u64, wall_cap: Duration, total: &mut Stats, gen: &(dyn Fn(u64) -> Scenario + Sync), exec: &Exec, samples: &[u64], sample_ops: usize, hermetic: bool) -> StageOut {
    let c = report::ctx();
    report::set_stage(name);
    let plain = |sc: &Scenario| -> Option<Violation> {
        let mut st = Stats::default();
        exec(sc, &mut st)
    };
    let unconfirmed: std::sync::Mutex<Option<(u64, Scenario, Violation)>> = std::sync::Mutex::new(None);
    // fixed corpora have no schedule to count
    let track_prefix = !name.starts_with("sweep") && !name.starts_with("grid");
    let is_c12 = c.prop == "C12";
    let on_hang = |i: u64| {
        if !is_c12 {
            // only C12 claims that every call returns; elsewhere a run that does not finish is not a verdict
            // on the property: say so and leave with the harness-error code
            eprintln!("harness error: run {} of stage {} made no progress within the limit (a call that does not return, or an implementation that became very slow on huge windows); this is C12's subject, not {}'s", i, name, c.prop);
            std::process::exit(2);
        }
        // the stuck run is regenerated from its index and written out as the replay file
        let sc = gen(i);
        match minimise_hang(&c.prop, &sc) {
            Some(min) => report::hang_exit(i, Some((&min, sc.ops.len(), true))),
            None => report::hang_exit(i, Some((&sc, sc.ops.len(), false))),
        }
    };
    // generous: an implementation may legitimately do O(window) work per call under some condition, and the
    // fixed corpora contain windows of 2e5 slots
    let hang_limit = Duration::from_secs(std::env::var("VERIF_HANG_LIMIT").ok().and_then(|s| s.parse().ok()).unwrap_or(if is_c12 { 300 } else { 900 }));
    let b = run_batch(runs, c.jobs, wall_cap, hang_limit, &on_hang, |i, st| {
        let t_run = std::time::Instant::now();
        let sc = gen(i);
        st.runs += 1;
        if let Some(n) = sc.nodes.first() {
            st.kind(n.kind);
        }
        if track_prefix {
            st.prefix(&sc);
        }
        if samples.contains(&i) {
            let mut short = sc.clone();
            let total_ops = short.ops.len();
            short.ops.truncate(sample_ops);
            st.samples.push(json!({"stage": name, "run": i, "total_ops": total_ops, "scenario_first_ops": short}));
        }
        let verdict = exec(&sc, st);
        // wall time of the slowest single run (reported only; never part of a digest or a decision)
        st.max("slowest_run_ms", t_run.elapsed().as_secs_f64() * 1000.0);
        match verdict {
            Some(v) if hermetic => {
                let prop = v.property.clone();
                let herm = |c: &Scenario| hermetic_exec(&prop, c).unwrap_or(None);
                match herm(&sc) {
                    Some(v2) => match report::triage(sc, v2, &herm) {
                        Triage::Known(line) => {
                            st.known_findings.push(line);
                            RunResult::Ok
                        }
                        Triage::New(b) => RunResult::Violation(b),
                    },
                    None => {
                        // real (the unchanged code cannot mismatch) but dependent on state outside this scenario
                        st.bump("violations_not_reproducible_in_a_fresh_process");
                        let mut u = unconfirmed.lock().unwrap();
                        if u.as_ref().map_or(true, |(r, _, _)| i < *r) {
                            let mut v = v;
                            v.detail.push_str(" [found in the batch process but NOT reproducible from this scenario alone in a fresh process: it depends on state left behind by other runs/threads, on addresses or on time - which is itself what C05 forbids]");
                            *u = Some((i, sc, v));
                        }
                        RunResult::Ok
                    }
                }
            }
            Some(v) => match report::triage(sc, v, &plain) {
                Triage::Known(line) => {
                    st.known_findings.push(line);
                    RunResult::Ok
                }
                Triage::New(b) => RunResult::Violation(b),
            },
            None => RunResult::Ok,
        }
    });
    total.merge(b.stats);
    let mut bfound = b.found;
    if bfound.is_none() {
        if let Some((run, scenario, violation)) = unconfirmed.lock().unwrap().take() {
            bfound = Some(Found { run, scenario, violation });
        }
    }
    let found = bfound.map(|f| {
        let n = gen(f.run).ops.len();
        (f, n)
    });
    StageOut { name: name.to_string(), runs, executed: b.executed, truncated: b.truncated, found }
}

/// Print known findings, report the first new violation (if any). Returns the number of
/// violations reported (0 or 1).
pub fn conclude(total: &Stats, stages: &[&StageOut]) -> u64 {
    let mut kf = total.known_findings.clone();
    kf.sort();
    kf.dedup();
    for l in &kf {
        println!("{}", l);
    }
    for s in stages {
        if let Some((f, orig)) = &s.found {
            report::report_violation(f.run, *orig, &f.scenario, &f.violation);
            return 1;
        }
    }
    0
}
