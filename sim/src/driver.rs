//! Glue shared by all property checks: run a stage (generate -> execute -> triage), finish a check
//! (report, known findings, evidence, exit code).

use crate::report::{self, Triage};
use crate::runner::{run_batch, Found, RunResult};
use crate::scenario::{Scenario, Violation};
use crate::stats::Stats;
use serde_json::json;
use std::time::Duration;

pub type Exec = dyn Fn(&Scenario, &mut Stats) -> Option<Violation> + Sync;

pub struct StageOut {
    pub name: String,
    pub runs: u64,
    pub executed: u64,
    pub truncated: bool,
    pub found: Option<(Found, usize)>,
}

impl StageOut {
    pub fn json(&self) -> serde_json::Value {
        json!({"runs": self.runs, "executed": self.executed, "truncated_by_wall_clock": self.truncated})
    }
}

/// Run `runs` scenarios produced by `gen(index)` through `exec`, with triage (minimise + known
/// findings) of every violation. Statistics are merged into `total`.
pub fn run_stage(name: &str, runs: u64, wall_cap: Duration, total: &mut Stats, gen: &(dyn Fn(u64) -> Scenario + Sync), exec: &Exec, samples: &[u64], sample_ops: usize) -> StageOut {
    let c = report::ctx();
    report::set_stage(name);
    let plain = |sc: &Scenario| -> Option<Violation> {
        let mut st = Stats::default();
        exec(sc, &mut st)
    };
    // fixed corpora have no schedule to count
    let track_prefix = !name.starts_with("sweep") && !name.starts_with("grid");
    let b = run_batch(runs, c.jobs, wall_cap, Duration::from_secs(60), |i, st| {
        let sc = gen(i);
        st.runs += 1;
        if let Some(n) = sc.nodes.first() {
            st.kind(n.kind);
        }
        if track_prefix {
            st.prefix(&sc);
        }
        if samples.contains(&i) {
            let mut short = sc.clone();
            let total_ops = short.ops.len();
            short.ops.truncate(sample_ops);
            st.samples.push(json!({"stage": name, "run": i, "total_ops": total_ops, "scenario_first_ops": short}));
        }
        match exec(&sc, st) {
            Some(v) => match report::triage(sc, v, &plain) {
                Triage::Known(line) => {
                    st.known_findings.push(line);
                    RunResult::Ok
                }
                Triage::New(b) => RunResult::Violation(b),
            },
            None => RunResult::Ok,
        }
    });
    total.merge(b.stats);
    let found = b.found.map(|f| {
        let n = gen(f.run).ops.len();
        (f, n)
    });
    StageOut { name: name.to_string(), runs, executed: b.executed, truncated: b.truncated, found }
}

/// Print known findings, report the first new violation (if any). Returns the number of
/// violations reported (0 or 1).
pub fn conclude(total: &Stats, stages: &[&StageOut]) -> u64 {
    let mut kf = total.known_findings.clone();
    kf.sort();
    kf.dedup();
    for l in &kf {
        println!("{}", l);
    }
    for s in stages {
        if let Some((f, orig)) = &s.found {
            report::report_violation(f.run, *orig, &f.scenario, &f.violation);
            return 1;
        }
    }
    0
}
