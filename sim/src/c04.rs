//! C04 — reset() is an in-place cold restart: after any (fault-laden) history, a reset node is
//! indistinguishable from a freshly constructed twin fed the same continuation.

use crate::gen::{self, Tier};
use crate::oracle::{out_rel12, Scale};
use crate::driver::{conclude, run_stage};
use crate::report;
use crate::rng::{fnv_u64, run_seed, Rng};
use crate::runner::{guarded, on, PanicVerdict, Side};
use crate::scenario::{Op, Scenario, Violation};
use crate::stats::{phase, Stats};
use crate::sut::{build_spec, Input, Kind, Mode, NodeSpec, Params, ALL_KINDS};
use crate::world::{self, Fault, FaultPlan, World, ALL_FEED_FAULTS};
use serde_json::json;
use std::time::{Duration, Instant};

pub const PROP: &str = "C04";

fn viol(class: &str, kind: Kind, step: usize, detail: String, expected: Vec<String>, got: Vec<String>) -> Violation {
    Violation {
        property: PROP.into(),
        class: format!("C04/{}/{}", class, kind.name()),
        step,
        detail,
        expected,
        got,
        oracle: "freshly constructed twin (same parameters) fed the same continuation".into(),
    }
}

/// Pure executor: interprets the op list on node 0.
pub fn exec(sc: &Scenario, st: &mut Stats) -> Option<Violation> {
    let spec = sc.nodes[0];
    let kind = spec.kind;
    let mut node = build_spec(&spec);
    let mut twin = crate::sut::build_ref(&spec);
    let mut scale = Scale::new(spec.params.sum_periods(kind).max(spec.params.window(kind)));
    let mut count = 0u64;
    let mut was_reset = false;
    let mut resets = 0u64;
    let mut hist_before_reset = 0u64;
    let mut last_fault = Fault::Clean;
    let mut fault_before_reset = Fault::Clean;
    let mut digest = 0u64;
    let mut compared_after_reset = false;
    let mut prev_was_reset = false;
    let mut micro: Vec<(Input, Fault)> = vec![];
    let mut siblings: Vec<Box<dyn crate::sut::Sut>> = vec![];
    for (i, op) in sc.ops.iter().enumerate() {
        st.op(op);
        match op {
            Op::Feed { .. } | Op::Gen { .. } => {
                micro.clear();
                match op {
                    Op::Feed { x, f, .. } => micro.push((*x, *f)),
                    Op::Gen { g, skip, len, fault, every, .. } => world::expand_gen(g, *skip, *len, *fault, *every, 0, |x, f, _| {
                        micro.push((*x, f));
                        true
                    }),
                    _ => {}
                }
                for (x, f) in micro.iter() {
                    st.ticks += 1;
                    st.fault(*f);
                    if *f != Fault::Clean {
                        last_fault = *f;
                    }
                    let (eo, _) = on(Side::Reference, || twin.feed(spec.mode, x));
                    let (go, used) = on(Side::Subject, || node.feed(spec.mode, x));
                    scale.push(x);
                    for b in go.bits() {
                        digest = fnv_u64(digest, b);
                    }
                    st.comparisons += 1;
                    if resets > 0 {
                        compared_after_reset = true;
                        st.situation(kind, &spec.params, phase(count, spec.params.window(kind), was_reset), 1, fault_before_reset, used, (hist_before_reset.min(3) << 8) | (*f as u64));
                    }
                    if !go.same_bits(&eo) {
                        if let Some(c) = out_rel12(&go, &eo, scale.of(kind)) {
                            return Some(viol(
                                "output-mismatch",
                                kind,
                                i,
                                format!("component {} differs {} ticks after reset #{} (history before reset: {} ticks, last fault {})", c, count + 1, resets, hist_before_reset, fault_before_reset.name()),
                                eo.hex(),
                                go.hex(),
                            ));
                        }
                        st.bump("within_rel12_but_not_bit_identical");
                    }
                    count += 1;
                    prev_was_reset = false;
                }
            }
            Op::Reset { .. } => {
                // inside a long reset storm only every 97th reset pays for the parameter comparison and a new twin
                let in_storm = prev_was_reset && matches!(sc.ops.get(i + 1), Some(Op::Reset { .. })) && i % 97 != 0;
                if in_storm {
                    on(Side::Subject, || node.reset());
                    st.fault(Fault::ResetStorm);
                    resets += 1;
                    continue;
                }
                let before = (node.display(), node.period(), node.multiplier().map(f64::to_bits));
                on(Side::Subject, || node.reset());
                twin = on(Side::Reference, || crate::sut::build_ref(&spec));
                let after = (node.display(), node.period(), node.multiplier().map(f64::to_bits));
                let fresh = (twin.display(), twin.period(), twin.multiplier().map(f64::to_bits));
                if before != after || after != fresh {
                    return Some(viol("params-changed", kind, i, "period/multiplier/Display changed by reset()".into(), vec![format!("{:?}", before), format!("{:?}", fresh)], vec![format!("{:?}", after)]));
                }
                if prev_was_reset {
                    st.fault(Fault::ResetStorm);
                } else {
                    hist_before_reset = count;
                    fault_before_reset = last_fault;
                }
                if count == 0 {
                    st.bump("reset_on_fresh_or_just_reset");
                }
                scale.reset();
                count = 0;
                was_reset = true;
                resets += 1;
                prev_was_reset = true;
                last_fault = Fault::Clean;
            }
            Op::Fork { dst, .. } if *dst != 0 => {
                // a clone is taken and stays alive next to the node (shared copy-on-write buffers would
                // still be shared at the reset)
                siblings.push(on(Side::Subject, || node.fork()));
                st.bump("live_clone_next_to_the_node_at_reset");
                prev_was_reset = false;
            }
            Op::Drop { .. } => {
                siblings.pop();
            }
            Op::Fork { .. } => {
                // the node is replaced by its clone: what is reset later is a clone
                node = on(Side::Subject, || node.fork());
                st.bump("node_replaced_by_clone_before_reset");
                prev_was_reset = false;
            }
            Op::RoundTrip { .. } => {
                // the node is replaced by a serialize->deserialize copy of itself
                let copy = on(Side::Subject, || node.save().ok().and_then(|b| node.load(&b).ok()));
                if let Some(c) = copy {
                    node = c;
                    st.bump("node_replaced_by_deserialized_copy_before_reset");
                }
                prev_was_reset = false;
            }
            Op::Format { .. } => {
                let d = on(Side::Subject, || (node.display(), node.debug().len()));
                let e = on(Side::Reference, || twin.display());
                if d.0 != e {
                    return Some(viol("display-mismatch", kind, i, "Display text differs from a fresh instance".into(), vec![e], vec![d.0]));
                }
            }
            _ => {}
        }
    }
    st.digest = st.digest.wrapping_add(fnv_u64(digest, sc.ops.len() as u64));
    if compared_after_reset {
        st.nontrivial_runs += 1;
    }
    None
}

pub fn exec_plain(sc: &Scenario) -> Option<Violation> {
    let mut st = Stats::default();
    exec_guarded(sc, &mut st)
}

/// executor + panic attribution: a panic of the reset node where the fresh twin did not panic
/// is a C04 violation; a panic of the fresh twin is C12's business (run skipped and counted).
pub fn exec_guarded(sc: &Scenario, st: &mut Stats) -> Option<Violation> {
    match guarded(|| exec(sc, st)) {
        Ok(v) => v,
        Err(PanicVerdict::Subject(m)) => Some(viol("panic-after-reset", sc.nodes[0].kind, sc.ops.len().saturating_sub(1), format!("reset node panicked where the fresh twin returned: {}", m), vec![], vec![m])),
        Err(PanicVerdict::Reference(_)) => {
            st.bump("reference_panicked_run_skipped");
            None
        }
        Err(PanicVerdict::Harness(m)) => {
            eprintln!("harness error: {}", m);
            std::process::exit(2);
        }
    }
}

/// Seeded scenario: up to 4 cycles of (history, reset(s), continuation from a different stretch
/// of the world).
pub fn generate(rng: &mut Rng, tier: Tier) -> Scenario {
    let spec = gen::random_spec(rng, tier, None);
    let kind = spec.kind;
    let sp = spec.params.sum_periods(kind).max(1);
    let n = spec.params.window(kind);
    let mut ops = vec![];
    let cycles = rng.range(1, 4);
    let faulty_continuation = rng.chance(0.5);
    let mut buf = vec![];
    for _ in 0..cycles {
        let cycle_start = ops.len();
        // phase 1: history in a random regime under a random fault subset (10-20% fault free)
        let mut w = World::random(rng);
        let plan = if rng.chance(0.15) { FaultPlan::none() } else { FaultPlan::swarm(rng, &ALL_FEED_FAULTS, 0.005, 0.6) };
        let hlen = match rng.below(8) {
            0 => 0,
            1 => 1,
            2 => n.saturating_sub(1),
            3 => n,
            4 => n + 1,
            5 => 2 * n,
            6 => rng.range(0, (4 * sp + 40).min(sp + 6000)),
            _ => rng.range(0, (4 * sp + 40).min(60)),
        };
        // rarely: a very long uptime before the reset (counters, cursors and running sums far from fresh)
        if rng.chance(0.0006) && sp <= 64 {
            let len = match tier {
                Tier::Quick => rng.range(66_000, 90_000),
                Tier::Thorough => rng.range(66_000, 400_000),
            } as u64;
            let fault = if rng.chance(0.4) { Some(*rng.pick(&world::VALUE_FAULTS)) } else { None };
            ops.push(Op::Gen { n: 0, g: World::random_desc(rng), skip: 0, len, fault, every: if fault.is_some() { rng.range(2, 3000) as u64 } else { 0 }, reset_every: 0, clone_every: 0 });
        }
        let mut fed = 0;
        while fed < hlen {
            buf.clear();
            world::tick(&mut w, &plan, rng, &mut buf);
            for (x, f) in buf.drain(..) {
                ops.push(Op::Feed { n: 0, x, f });
                fed += 1;
            }
            // reset and Debug cost O(window): bounded work per run for huge windows
            if rng.chance(if sp > 2000 { 0.02f64.min(4.0 / hlen.max(1) as f64) } else { 0.02 }) {
                ops.push(Op::Reset { n: 0 });
            }
            if rng.chance(if sp > 2000 { 0.01f64.min(2.0 / hlen.max(1) as f64) } else { 0.01 }) {
                ops.push(Op::Format { n: 0 });
            }
        }
        // sometimes what gets reset is a clone, or a copy that went through serde
        if rng.chance(0.06) {
            ops.push(Op::Fork { src: 0, dst: 0, into: false });
        }
        let sibling = rng.chance(0.08);
        if sibling {
            ops.push(Op::Fork { src: 0, dst: 1, into: false });
        }
        if rng.chance(0.06) {
            ops.push(Op::RoundTrip { n: 0, times: 1, json: false });
        }
        // phase 2: the reset (sometimes a storm)
        // the reset, sometimes a storm of 2-3, rarely a storm around a power of two (a per-reset
        // generation counter narrower than usize wraps after 256 / 65536 resets)
        let k = if rng.chance(0.004) {
            let base = if sp <= 16 && rng.chance(0.3) { 65_536 } else if rng.chance(0.5) { 256 } else { 512 };
            base - 2 + rng.range(0, 4)
        } else if rng.chance(0.2) {
            rng.range(2, 3)
        } else {
            1
        };
        for _ in 0..k {
            ops.push(Op::Reset { n: 0 });
        }
        if rng.chance(0.1) {
            ops.push(Op::Format { n: 0 });
        }
        if sibling && rng.chance(0.5) {
            ops.push(Op::Drop { n: 1 });
        }
        // phase 3: continuation. Mostly from a different stretch of the world (the tests' habit of
        // re-feeding the same data hides stale windows); sometimes the same world simply goes on
        // (exact repeats of earlier values in flat / few-valued / alternating regimes); sometimes the
        // history itself is fed again (stale state that only shows when old and new values coincide).
        let clen = rng.range(sp + 2, (3 * sp + 20).min(sp + 5000));
        let how = rng.below(10);
        let hist: Vec<(Input, Fault)> = ops[cycle_start..].iter().filter_map(|o| if let Op::Feed { x, f, .. } = o { Some((*x, *f)) } else { None }).collect();
        if how >= 8 && !hist.is_empty() {
            let off = if rng.chance(0.5) { 0 } else { rng.range(0, hist.len() - 1) };
            for j in 0..clen {
                let (x, f) = hist[(off + j) % hist.len()];
                if !faulty_continuation && !(x.all_finite() && x.valid_item()) {
                    ops.push(Op::Feed { n: 0, x: w.clean(), f: Fault::Clean });
                } else {
                    ops.push(Op::Feed { n: 0, x, f });
                }
            }
        } else {
            let mut w2 = if how >= 6 { w.clone() } else { World::random(rng) };
            let plan2 = if faulty_continuation { FaultPlan::swarm(rng, &ALL_FEED_FAULTS, 0.01, 0.5) } else { FaultPlan::none() };
            let mut fed = 0;
            while fed < clen {
                buf.clear();
                world::tick(&mut w2, &plan2, rng, &mut buf);
                for (x, f) in buf.drain(..) {
                    ops.push(Op::Feed { n: 0, x, f });
                    fed += 1;
                }
            }
        }
    }
    Scenario { property: PROP.into(), stage: if faulty_continuation { "seeded-faulty-continuation".into() } else { "seeded-clean-continuation".into() }, nodes: vec![spec], ops, workers: 0 }
}

// ---------------------------------------------------------------------------------------------
// deterministic sweep (fixed corpus, seed independent): every history over a small alphabet up to
// depth D for periods 1..=4, then reset, then three fixed continuations

const NCONT: u64 = 4;
const ALPHA: [f64; 7] = [-1.0, 0.0, 1.0, 2.0, f64::NAN, f64::INFINITY, f64::NEG_INFINITY];
const NSYM: u64 = 8; // the alphabet plus Reset

fn sweep_specs() -> Vec<NodeSpec> {
    let mut v = vec![];
    for &k in ALL_KINDS.iter() {
        let modes: Vec<Mode> = if k.has_scalar() { vec![Mode::Scalar, Mode::Bar] } else { vec![Mode::Bar] };
        let tuples: Vec<(usize, usize, usize)> = match k.n_periods() {
            0 => vec![(1, 1, 1)],
            1 => (1..=4).map(|p| (p, 1, 1)).collect(),
            2 => {
                let mut t = vec![];
                for a in 1..=4 {
                    for b in 1..=3 {
                        t.push((a, b, 1));
                    }
                }
                t
            }
            _ => vec![(1, 1, 1), (1, 2, 1), (2, 3, 2), (3, 4, 2), (4, 2, 3), (2, 2, 4), (3, 1, 1), (4, 4, 4)],
        };
        for m in modes {
            for &(a, b, c) in &tuples {
                v.push(NodeSpec { kind: k, params: Params::new(a, b, c, 2.0), mode: m, dflt: false });
            }
        }
    }
    v
}

/// number of histories of length 0..=depth over an alphabet of 7 symbols
fn n_hist(depth: u32) -> u64 {
    (0..=depth).map(|d| NSYM.pow(d)).sum::<u64>()
}

fn sweep_scenario(idx: u64, specs: &[NodeSpec], depth: u32) -> Scenario {
    let per_spec = n_hist(depth) * NCONT;
    let spec = specs[(idx / per_spec) as usize];
    let mut r = idx % per_spec;
    let cont = r % NCONT;
    r /= NCONT;
    // decode history number r: lengths 0..=depth
    let mut len = 0u32;
    let mut base = 0u64;
    while r >= base + NSYM.pow(len) {
        base += NSYM.pow(len);
        len += 1;
    }
    let mut code = r - base;
    let mut ops = vec![];
    let mut first_val: Option<f64> = None;
    for _ in 0..len {
        let s = (code % NSYM) as usize;
        if s < 7 && first_val.is_none() {
            first_val = Some(ALPHA[s]);
        }
        code /= NSYM;
        if s == 7 {
            ops.push(Op::Reset { n: 0 });
        } else {
            let f = if ALPHA[s].is_nan() {
                Fault::Nan
            } else if ALPHA[s] == f64::NEG_INFINITY {
                Fault::NegInf
            } else if ALPHA[s].is_infinite() {
                Fault::PosInf
            } else {
                Fault::Clean
            };
            ops.push(Op::Feed { n: 0, x: Input::scalar(ALPHA[s]), f });
        }
    }
    ops.push(Op::Reset { n: 0 });
    let sp = spec.params.sum_periods(spec.kind);
    let clen = sp + 3;
    for j in 0..clen {
        let (x, f) = match cont {
            0 => (Input::scalar(3.0 + j as f64), Fault::Clean),
            1 => (Input::scalar(9.0 - (j / 2) as f64), Fault::Clean),
            3 => {
                // values of the history alphabet again, starting with the very first value of the history
                let cyc = [1.0, 1.0, 2.0, 0.0, -1.0, 2.0, 0.0];
                let v = if j == 0 { first_val.filter(|v| v.is_finite()).unwrap_or(1.0) } else { cyc[j % cyc.len()] };
                (Input::scalar(v), Fault::Clean)
            }
            _ => {
                if j == 0 {
                    (Input::scalar(f64::NAN), Fault::Nan)
                } else {
                    (Input { o: 5.0, h: 6.0 + j as f64, l: 4.0 - j as f64, c: 5.0 + (j % 2) as f64, v: 10.0 }, Fault::Clean)
                }
            }
        };
        ops.push(Op::Feed { n: 0, x, f });
    }
    Scenario { property: PROP.into(), stage: "sweep".into(), nodes: vec![spec], ops, workers: 0 }
}

/// sweep-mega (fixed corpus): every O(1)-per-call kind with a window around/beyond 2^16 slots: a history of
/// 2n+1 ticks (the ring wrapped), reset, a continuation of n+3 ticks against a fresh twin
fn mega_specs(periods: &[usize]) -> Vec<NodeSpec> {
    let mut v = vec![];
    for &k in ALL_KINDS.iter() {
        if !gen::cheap_per_tick(k) || k.n_periods() == 0 {
            continue;
        }
        for &p in periods {
            let mode = if k.has_scalar() { Mode::Scalar } else { Mode::Bar };
            v.push(NodeSpec { kind: k, params: Params::new(p, 3, 2, 2.0), mode, dflt: false });
        }
    }
    v
}

fn mega_scenario(idx: u64, specs: &[NodeSpec]) -> Scenario {
    let spec = specs[idx as usize];
    let n = spec.params.p1 as u64;
    let g = world::StreamDesc { regime: [world::Regime::Walk, world::Regime::Saw, world::Regime::Few][(idx % 3) as usize], level: crate::sut::Fx(40.0), saw: 7, seed: idx, neg: false };
    let g2 = world::StreamDesc { regime: world::Regime::Trend, level: crate::sut::Fx(900.0), saw: 3, seed: idx + 1000, neg: false };
    let ops = vec![
        Op::Gen { n: 0, g, skip: 0, len: 2 * n + 1, fault: None, every: 0, reset_every: 0, clone_every: 0 },
        Op::Reset { n: 0 },
        Op::Gen { n: 0, g: g2, skip: 0, len: n + 3, fault: None, every: 0, reset_every: 0, clone_every: 0 },
    ];
    Scenario { property: PROP.into(), stage: "sweep-mega".into(), nodes: vec![spec], ops, workers: 0 }
}

/// huge-periods (fixed corpus): the windowless EMA family with periods around 2^31 .. 2^62
fn huge_scenario(idx: u64, specs: &[NodeSpec]) -> Scenario {
    let spec = specs[idx as usize];
    let t = |j: usize| Op::Feed { n: 0, x: gen::plain_tick(j), f: Fault::Clean };
    let mut ops: Vec<Op> = (0..6).map(t).collect();
    ops.push(Op::Format { n: 0 });
    ops.push(Op::Reset { n: 0 });
    ops.extend((6..14).map(t));
    ops.push(Op::Reset { n: 0 });
    ops.push(Op::Reset { n: 0 });
    ops.extend((14..18).map(t));
    Scenario { property: PROP.into(), stage: "huge-periods".into(), nodes: vec![spec], ops, workers: 0 }
}

pub fn run(tier: Tier) -> i32 {
    let c = report::ctx();
    let start = Instant::now();
    let mut total = Stats::default();
    let (depth, seeded_runs) = match tier {
        Tier::Quick => (4u32, 3_000_000u64),
        Tier::Thorough => (6u32, 50_000_000u64),
    };
    let wall_cap = match tier {
        Tier::Quick => Duration::from_secs(120),
        Tier::Thorough => Duration::from_secs(1500),
    };
    let specs = sweep_specs();
    let sweep_runs = if gen::skip_fixed() { 1 } else { specs.len() as u64 * n_hist(depth) * NCONT };
    let seeded_runs = gen::scaled(seeded_runs);
    let sweep = run_stage("sweep", sweep_runs, wall_cap, &mut total, &|i| sweep_scenario(i, &specs, depth), &exec_guarded, &[4321], 32);
    let mega_periods: &[usize] = match tier {
        Tier::Quick => &[65_535, 65_536, 65_537],
        Tier::Thorough => &gen::MEGA_PERIODS,
    };
    let mspecs = mega_specs(mega_periods);
    let mega = if sweep.found.is_none() && !gen::skip_fixed() { Some(run_stage("sweep-mega", mspecs.len() as u64, wall_cap, &mut total, &|i| mega_scenario(i, &mspecs), &exec_guarded, &[], 3)) } else { None };
    let hspecs = gen::huge_specs();
    let huge = if sweep.found.is_none() && mega.as_ref().map_or(true, |m| m.found.is_none()) && !gen::skip_fixed() { Some(run_stage("huge-periods", hspecs.len() as u64, wall_cap, &mut total, &|i| huge_scenario(i, &hspecs), &exec_guarded, &[], 5)) } else { None };
    let seeded = if sweep.found.is_none() && mega.as_ref().map_or(true, |m| m.found.is_none()) && huge.as_ref().map_or(true, |m| m.found.is_none()) {
        Some(run_stage("seeded", seeded_runs, wall_cap, &mut total, &|i| generate(&mut Rng::new(run_seed(c.seed, PROP, "seeded", i)), tier), &exec_guarded, &[0, 1], 24))
    } else {
        None
    };
    let mut stages = vec![&sweep];
    if let Some(s) = &mega {
        stages.push(s);
    }
    if let Some(s) = &huge {
        stages.push(s);
    }
    if let Some(s) = &seeded {
        stages.push(s);
    }
    let violations = conclude(&total, &stages);
    let wall = start.elapsed().as_secs_f64();
    // every feed-level fault kind must actually have fired
    let dead: Vec<&str> = ALL_FEED_FAULTS.iter().filter(|f| !matches!(f, Fault::Drop)).map(|f| f.name()).filter(|n| total.faults.get(n).copied().unwrap_or(0) == 0).collect();
    report::write_evidence(
        &total,
        report::EvidenceMeta {
            level: "exploration",
            rule: "one evaluation = one scenario (history, reset(s), continuation) executed against the real crate. Seeded scenarios: random indicator/parameters/input mode, up to 4 cycles of fault-laden history + reset (storms included) + continuation drawn from a different stretch of the simulated market (or the same market going on, or the history itself fed again), compared tick by tick with a twin constructed at the reset. Sweep scenarios: every history over {-1,0,1,2,NaN,+inf,-inf,Reset} up to the stated depth for periods 1..=4, then reset, then 4 fixed continuations (ascending, descending with ties, NaN-first bars, the history's own alphabet again). distinct_nontrivial counts distinct situations (indicator, period bucket, window phase of the compared tick since reset, input mode, fault most recently seen before the reset, history length class, fault of the compared tick) in which a post-reset output was actually compared with the twin; comparisons before any reset are trivial and not counted.",
            assumptions: vec![
                "oracle = the same real code freshly constructed; a defect shared by both sides (wrong formula) is invisible by construction".into(),
                "comparison: bit-identical, else both NaN / equal infinities / |a-b| <= 1e-12*max(|a|,|b|,natural scale)".into(),
                "sampling, not proof; the sweep is exhaustive only within its stated alphabet/depth/period bounds".into(),
            ],
            wall_s: wall,
            violations,
            exhaustive: false,
            extra: json!({"sweep": {"specs": specs.len(), "depth": depth, "stage": sweep.json(), "exhaustive_within_bounds": !sweep.truncated},
                           "sweep_mega": {"specs": mspecs.len(), "periods": mega_periods, "stage": mega.as_ref().map(|s| s.json())},
                           "seeded": seeded.as_ref().map(|s| s.json()),
                           "dead_fault_kinds": dead}),
        },
    );
    println!("C04 {:?}: sweep {} runs, seeded {} runs, {} ticks, {} situations, {:.1}s, violations={}", tier, sweep.executed, seeded.as_ref().map_or(0, |s| s.executed), total.ticks, total.situations.len(), wall, violations);
    if violations > 0 {
        return 1;
    }
    if !dead.is_empty() && seeded.as_ref().map_or(false, |s| !s.truncated) {
        eprintln!("harness error: fault kinds never fired: {:?}", dead);
        return 2;
    }
    0
}
