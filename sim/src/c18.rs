//! C18 — finite memory and finite disk: the allocator seam enforces a per-node memory cap and the
//! simulated disk a quota, both equal to the property's bound B = 256 + 64*sum(periods) bytes,
//! over long simulated time and adversarial stream shapes.

use crate::alloc;
use crate::driver::{conclude, run_stage};
use crate::gen::Tier;
use crate::report;
use crate::rng::{fnv_u64, run_seed, Rng};
use crate::runner::{guarded, on, PanicVerdict, Side};
use crate::scenario::{Op, Scenario, Violation};
use crate::stats::{phase, Stats};
use crate::sut::{build_spec, Fx, Kind, Mode, NodeSpec, Params, ALL_KINDS};
use crate::world::{Fault, Regime, StreamDesc};
use serde_json::json;
use std::time::{Duration, Instant};

pub const PROP: &str = "C18";

pub const SHAPES: [Regime; 8] = [Regime::Up, Regime::Down, Regime::Alt, Regime::Flat, Regime::Saw, Regime::Walk, Regime::Few, Regime::Signed];

pub fn bound(spec: &NodeSpec) -> i64 {
    256 + 64 * spec.params.sum_periods(spec.kind) as i64
}

fn viol(class: &str, kind: Kind, step: usize, detail: String, expected: String, got: String) -> Violation {
    Violation {
        property: PROP.into(),
        class: format!("C18/{}/{}", class, kind.name()),
        step,
        detail,
        expected: vec![expected],
        got: vec![got],
        oracle: "memory cap (per-thread counting allocator) and disk quota (bincode length), both B = 256 + 64*sum(periods)".into(),
    }
}

pub fn exec(sc: &Scenario, st: &mut Stats) -> Option<Violation> {
    let spec = sc.nodes[0];
    let kind = spec.kind;
    let b = bound(&spec);
    let sp = spec.params.sum_periods(kind);
    let warm = sp as u64 + 2;
    let dense = 4 * sp as u64 + 16;
    let have_alloc = alloc::installed();
    let base = alloc::live();
    let mut node = on(Side::Subject, || build_spec(&spec));
    let footprint = alloc::live() - base;
    let mut t = 0u64;
    let mut live_warm: Option<i64> = None;
    let mut allocs_warm = 0u64;
    let mut digest = 0u64;
    // local tallies: nothing below may allocate on behalf of the harness between probes
    let mut probes = 0u64;
    let mut max_size = 0u64;
    let mut max_growth = 0i64;
    let mut max_peak = 0i64;
    let mut size_first: Option<u64> = None;
    let mut size_constant = true;
    let mut found: Option<Violation> = None;
    let mut faults_fired = 0u64;
    let mut resets_done = 0u64;
    let mut restores = 0u64;
    let mut clone_cycles = 0u64;
    let mut warm_at = warm;
    let mut logging = false;
    let mut logged = 0u64;
    for (i, op) in sc.ops.iter().enumerate() {
        let mut single: Option<(crate::sut::Input, Fault)> = None;
        let (desc, skip, len, fault, every, reset_every, clone_every) = match op {
            Op::Gen { g, skip, len, fault, every, reset_every, clone_every, .. } => (*g, *skip, *len, *fault, *every, *reset_every, *clone_every),
            Op::Feed { x, f, .. } => {
                single = Some((*x, *f));
                (StreamDesc { regime: Regime::Flat, level: Fx(1.0), saw: 2, seed: 0, neg: false }, 0, 1, None, 0, 0, 0)
            }
            Op::RoundTrip { .. } | Op::Fork { .. } => {
                // crash/restore (or hand-over to a clone) in mid-stream: the process continues with the
                // restored node; heap accounting restarts after a fresh warm-up of the restored node
                let replaced = if matches!(op, Op::Fork { .. }) { Some(on(Side::Subject, || node.fork())) } else { on(Side::Subject, || node.save().ok().and_then(|b| node.load(&b).ok())) };
                if let Some(nn) = replaced {
                    node = nn;
                    restores += 1;
                    live_warm = None;
                    warm_at = t + warm;
                }
                continue;
            }
            Op::Format { .. } => {
                // from here on the node is logged ({} and {:?} into a discarding sink) after every tick of the
                // first 4096 and at every 4096th afterwards: formatting must stay read-only
                logging = true;
                continue;
            }
            _ => continue,
        };
        // Mixed: streams with an even seed switch the entry point in long phases (scalars for 2*sum+5 ticks, then
        // bars, then DataItems, ...), the others per tick
        let phased = spec.mode == Mode::Mixed && desc.seed % 2 == 0;
        let dwell = 2 * sp as u64 + 5;
        crate::world::expand_gen(&desc, skip, len, fault, every, reset_every, |x, fk, reset| {
            // an explicit Feed op is a stream of one given tick
            let (x, fk) = match &single {
                Some((sx, sf)) => (sx, *sf),
                None => (x, fk),
            };
            if reset {
                on(Side::Subject, || node.reset());
                resets_done += 1;
            }
            if fk != Fault::Clean {
                faults_fired += 1;
            }
            if clone_every > 0 && t > 0 && t % clone_every == 0 {
                // clone cycle: the process goes on with the clone, the original is dropped
                node = on(Side::Subject, || node.fork());
                clone_cycles += 1;
            }
            let mode = if phased { [Mode::Scalar, Mode::Bar, Mode::Item][((t / dwell) % 3) as usize] } else { spec.mode };
            let (o, _) = on(Side::Subject, || node.feed(mode, x));
            digest = fnv_u64(digest, o.bits()[0]);
            t += 1;
            if logging && (t <= 4096 || t % 4096 == 0) {
                logged += on(Side::Subject, || node.fmt_discard()) as u64;
            }
            if t == warm_at {
                live_warm = Some(alloc::live() - base);
                allocs_warm = alloc::allocs();
                alloc::reset_peak();
            }
            let probe = t <= dense || t.is_power_of_two() || t % 4096 == 0;
            if !probe {
                return true;
            }
            probes += 1;
            // disk quota: size of the checkpoint this node would write now
            let size = match on(Side::Subject, || node.save_size()) {
                Ok(s) => s,
                Err(e) => {
                    found = Some(viol("serialized-size", kind, i, format!("serialized_size failed at tick {}: {}", t, e), format!("<= {}", b), e));
                    return false;
                }
            };
            max_size = max_size.max(size);
            match size_first {
                None => size_first = Some(size),
                Some(s0) => {
                    if s0 != size {
                        size_constant = false;
                    }
                }
            }
            if size as i64 > b {
                found = Some(viol("serialized-size", kind, i, format!("disk quota exceeded at tick {}: bincode size {} > B = {} (sum of periods {})", t, size, b, sp), format!("<= {}", b), format!("{}", size)));
                return false;
            }
            // memory cap
            if have_alloc {
                if let Some(lw) = live_warm {
                    let now = alloc::live() - base;
                    let growth = now - lw;
                    max_growth = max_growth.max(growth);
                    if growth > b {
                        found = Some(viol("heap-growth", kind, i, format!("memory cap exceeded at tick {}: live heap grew by {} bytes since warm-up (B = {}, construction footprint {})", t, growth, b, footprint), format!("<= {}", b), format!("{}", growth)));
                        return false;
                    }
                    let pk = alloc::peak() - base - lw;
                    max_peak = max_peak.max(pk);
                    if pk > b {
                        found = Some(viol("heap-peak", kind, i, format!("memory cap exceeded transiently before tick {}: peak live heap {} bytes above the warm-up level (B = {})", t, pk, b), format!("<= {}", b), format!("{}", pk)));
                        return false;
                    }
                }
            }
            // at sparse probes also take a real checkpoint (allocates and frees a Vec)
            if t.is_power_of_two() {
                match on(Side::Subject, || node.save()) {
                    Ok(bytes) => {
                        if bytes.len() as i64 > b {
                            found = Some(viol("serialized-size", kind, i, format!("checkpoint of {} bytes at tick {} exceeds the disk quota B = {}", bytes.len(), t, b), format!("<= {}", b), format!("{}", bytes.len())));
                            return false;
                        }
                        drop(bytes);
                        alloc::reset_peak();
                    }
                    Err(e) => {
                        found = Some(viol("serialized-size", kind, i, format!("serialize failed at tick {}: {}", t, e), format!("<= {}", b), e));
                        return false;
                    }
                }
            }
            true
        });
        if found.is_some() {
            break;
        }
    }
    let allocs_run = alloc::allocs().saturating_sub(allocs_warm);
    // (iii) a clone of the final node must not drag a history along
    let mut clone_cost = 0i64;
    if found.is_none() && have_alloc {
        let before = alloc::live();
        let f = on(Side::Subject, || node.fork());
        clone_cost = alloc::live() - before;
        drop(f);
        if clone_cost > footprint + b {
            found = Some(viol("clone-footprint", kind, sc.ops.len().saturating_sub(1), format!("clone after {} ticks costs {} bytes, construction footprint {} + B {}", t, clone_cost, footprint, b), format!("<= {}", footprint + b), format!("{}", clone_cost)));
        }
    }
    drop(node);
    // ---- accounting window closed: now the harness may allocate again
    for op in &sc.ops {
        st.op(op);
    }
    st.ticks += t;
    st.comparisons += probes;
    st.fault(Fault::DiskQuota);
    if have_alloc {
        st.fault(Fault::MemCap);
    } else {
        st.bump("runs_without_counting_allocator");
    }
    let lenc = if t < 1000 { 0 } else if t < 50_000 { 1 } else if t < 500_000 { 2 } else { 3 };
    for op in &sc.ops {
        if let Op::Gen { g, fault, reset_every, .. } = op {
            st.situation(kind, &spec.params, phase(t, spec.params.window(kind), false), g.regime as u64 | if *reset_every > 0 { 64 } else { 0 }, fault.unwrap_or(Fault::Clean), spec.mode, lenc);
            if let Some(f) = fault {
                *st.faults.entry(f.name()).or_insert(0) += faults_fired.min(1);
            }
        }
    }
    st.add("corrupt_ticks_delivered", faults_fired);
    st.add("resets_inside_streams", resets_done);
    st.add("restores_or_clone_handovers_in_mid_stream", restores);
    st.add("bytes_logged_between_feeds", logged);
    if spec.mode == Mode::Mixed {
        st.bump("runs_fed_through_all_entry_points_in_turn");
    }
    st.add("clone_cycles_inside_streams", clone_cycles);
    st.max("max_serialized_size_over_bound", max_size as f64 / b as f64);
    st.max("max_heap_growth_over_bound", max_growth as f64 / b as f64);
    st.max("max_transient_peak_over_bound", max_peak as f64 / b as f64);
    st.max("max_clone_cost_over_footprint_plus_bound", clone_cost as f64 / (footprint + b) as f64);
    st.max("longest_stream_ticks", t as f64);
    if !size_constant {
        st.bump("runs_where_serialized_size_was_not_constant");
    }
    if allocs_run > 2 * probes + 4 {
        st.bump("runs_with_per_tick_allocations");
    }
    st.digest = st.digest.wrapping_add(fnv_u64(digest, t));
    if t > warm {
        st.nontrivial_runs += 1;
    }
    found
}

pub fn exec_guarded(sc: &Scenario, st: &mut Stats) -> Option<Violation> {
    match guarded(|| exec(sc, st)) {
        Ok(v) => v,
        Err(PanicVerdict::Subject(_)) | Err(PanicVerdict::Reference(_)) => {
            st.bump("sut_panicked_run_skipped");
            None
        }
        Err(PanicVerdict::Harness(m)) => {
            eprintln!("harness error: {}", m);
            std::process::exit(2);
        }
    }
}

pub fn exec_plain(sc: &Scenario) -> Option<Violation> {
    exec_guarded(sc, &mut Stats::default())
}

fn stream(shape: Regime, level: f64, saw: usize, seed: u64, len: u64) -> Op {
    Op::Gen { n: 0, g: StreamDesc { regime: shape, level: Fx(level), saw, seed, neg: seed % 5 == 0 }, skip: 0, len, fault: None, every: 0, reset_every: 0, clone_every: 0 }
}

fn spec_for(kind: Kind, sum: usize, mode_sel: u64, split: u64) -> NodeSpec {
    let (a, b, c) = match kind.n_periods() {
        0 | 1 => (sum.max(1), 1, 1),
        2 => {
            let a = (1 + split as usize % sum.max(1)).min(sum.saturating_sub(1)).max(1);
            (a, sum.saturating_sub(a).max(1), 1)
        }
        _ => {
            let a = (sum / 3).max(1);
            let b = (sum / 3 + split as usize % 2).max(1);
            (a, b, sum.saturating_sub(a + b).max(1))
        }
    };
    // a fifth of the nodes with a scalar entry point are fed through all their entry points in turn (per tick, or in
    // long phases: see exec) - structures kept per entry point must stay bounded together
    let mode = if kind.has_scalar() {
        if mode_sel % 5 == 4 {
            Mode::Mixed
        } else {
            [Mode::Scalar, Mode::Bar, Mode::Item][(mode_sel % 3) as usize]
        }
    } else {
        [Mode::Bar, Mode::Item][(mode_sel % 2) as usize]
    };
    NodeSpec { kind, params: Params::new(a, b, c, 2.0), mode, dflt: false }
}

/// fixed corpus: every kind x sum of periods 1..=16 x 8 shapes
fn sweep_scenario(idx: u64, len: u64) -> Scenario {
    let shape = SHAPES[(idx % 8) as usize];
    let r = idx / 8;
    let sum = 1 + (r % 16) as usize;
    let kind = ALL_KINDS[((r / 16) % 22) as usize];
    let spec = spec_for(kind, sum, idx, idx / 3);
    Scenario { property: PROP.into(), stage: "sweep".into(), nodes: vec![spec], ops: vec![stream(shape, 100.0, 2 + (idx % 9) as usize, idx, len)], workers: 0 }
}

/// poisoned-prefix sweep (fixed corpus): every prefix of length 0..=4 over a small alphabet that contains
/// both signed zeros, NaN and both infinities, followed by a long monotone tail (rising / falling, positive
/// / negative). A structure that a particular prefix leaves stuck leaks under one of the tails.
const PFX: [f64; 7] = [-1.0, -0.0, 0.0, 1.0, f64::NAN, f64::INFINITY, f64::NEG_INFINITY];

fn n_pfx(depth: u32) -> u64 {
    (0..=depth).map(|d| 7u64.pow(d)).sum::<u64>()
}

fn prefix_specs() -> Vec<NodeSpec> {
    let mut v = vec![];
    for &k in ALL_KINDS.iter() {
        for p in [2usize, 3] {
            if k.n_periods() == 0 && p == 3 {
                continue;
            }
            let mode = if k.has_scalar() { Mode::Scalar } else { Mode::Bar };
            v.push(NodeSpec { kind: k, params: Params::new(p, p, 2, 2.0), mode, dflt: false });
        }
    }
    v
}

fn prefix_scenario(idx: u64, specs: &[NodeSpec], depth: u32, tail: u64) -> Scenario {
    let per = n_pfx(depth) * 4;
    let spec = specs[(idx / per) as usize];
    let mut r = idx % per;
    let tail_kind = r % 4;
    r /= 4;
    let mut len = 0u32;
    let mut base = 0u64;
    while r >= base + 7u64.pow(len) {
        base += 7u64.pow(len);
        len += 1;
    }
    let mut code = r - base;
    let mut ops = vec![];
    for _ in 0..len {
        let v = PFX[(code % 7) as usize];
        code /= 7;
        let f = if v.is_nan() { Fault::Nan } else if v == f64::INFINITY { Fault::PosInf } else if v == f64::NEG_INFINITY { Fault::NegInf } else if v == 0.0 { Fault::Zero } else { Fault::Clean };
        ops.push(Op::Feed { n: 0, x: crate::sut::Input::scalar(v), f });
    }
    // tails: rising positive, falling positive, rising negative (towards 0), falling negative
    let (regime, neg) = [(Regime::Up, false), (Regime::Down, false), (Regime::Down, true), (Regime::Up, true)][tail_kind as usize];
    ops.push(Op::Gen { n: 0, g: StreamDesc { regime, level: Fx(3.0), saw: 2, seed: idx, neg }, skip: 0, len: tail, fault: None, every: 0, reset_every: 0, clone_every: 0 });
    Scenario { property: PROP.into(), stage: "prefix-sweep".into(), nodes: vec![spec], ops, workers: 0 }
}

pub fn generate(rng: &mut Rng, tier: Tier) -> Scenario {
    let kind = *rng.pick(&ALL_KINDS);
    let sum = if rng.chance(0.3) { rng.range(1, 16) } else { rng.log_range(1, 512) };
    let spec = spec_for(kind, sum, rng.u64(), rng.u64());
    let heavy = matches!(kind, Kind::Mad | Kind::Er | Kind::Cci | Kind::Min | Kind::Max | Kind::FastStoch | Kind::SlowStoch | Kind::Ce);
    let len = match tier {
        Tier::Quick => {
            if rng.chance(0.02) && !heavy && sum <= 64 {
                1_000_000 // a slow leak (a byte per thousand calls) needs this long to cross the bound
            } else if rng.chance(0.05) && !(heavy && sum > 64) {
                200_000
            } else {
                20_000
            }
        }
        Tier::Thorough => {
            let cap = if heavy && sum > 64 {
                200_000
            } else if !heavy && sum <= 64 && rng.chance(0.1) {
                8_000_000
            } else {
                1_000_000
            };
            rng.log_range(20_000, cap)
        }
    } as u64;
    let level = 10f64.powf(rng.uniform(-2.0, 5.0));
    // one shape, or two shapes back to back (a structure filled by one shape and drained by another)
    let mut ops = vec![];
    if rng.chance(0.3) {
        let (a, b) = (*rng.pick(&SHAPES), *rng.pick(&SHAPES));
        ops.push(stream(a, level, rng.range(2, 31), rng.u64(), len / 2));
        ops.push(stream(b, level, rng.range(2, 31), rng.u64(), len - len / 2));
    } else {
        ops.push(stream(*rng.pick(&SHAPES), level, rng.range(2, 31), rng.u64(), len));
    }
    // 30% of the runs: the node is checkpointed and restored (or handed over to a clone) after a short
    // first segment and the stream goes on with the restored node - state that is rebuilt wrongly on
    // restore (a skipped capacity/limit field) only leaks from then on
    if rng.chance(0.3) {
        let first = ops.remove(0);
        if let Op::Gen { n, g, skip, len, fault, every, reset_every, clone_every } = first {
            let cut = rng.range(0, (4 * sum + 8).min(len as usize - 1)) as u64;
            if cut > 0 {
                ops.insert(0, Op::Gen { n, g, skip, len: cut, fault, every, reset_every, clone_every });
            }
            let at = if cut > 0 { 1 } else { 0 };
            ops.insert(at, if rng.chance(0.8) { Op::RoundTrip { n: 0, times: 1, json: false } } else { Op::Fork { src: 0, dst: 0, into: false } });
            ops.insert(at + 1, Op::Gen { n, g, skip: skip + cut, len: len - cut, fault, every, reset_every, clone_every });
        }
    }
    // 35% of the runs: a corrupt feed (a fault value every k-th tick) and/or periodic resets - an
    // 'anomaly log' or a per-reset leak grows only then
    if rng.chance(0.35) {
        let f = if rng.chance(0.8) { Some(*rng.pick(&crate::world::VALUE_FAULTS)) } else { None };
        let ev = if f.is_some() { rng.log_range(1, 500) as u64 } else { 0 };
        let re = if rng.chance(0.5) { rng.log_range(1, 5000) as u64 } else { 0 };
        // growth through repeated clone cycles rather than through next()
        let ce = if rng.chance(0.3) { rng.log_range(1, 5000) as u64 } else { 0 };
        for op in ops.iter_mut() {
            if let Op::Gen { fault, every, reset_every, clone_every, .. } = op {
                *fault = f;
                *every = ev;
                *reset_every = re;
                *clone_every = ce;
            }
        }
    }
    // 12% of the runs: the node is logged between feeds
    if rng.chance(0.12) {
        ops.insert(0, Op::Format { n: 0 });
    }
    Scenario { property: PROP.into(), stage: "seeded".into(), nodes: vec![spec], ops, workers: 0 }
}

pub fn run(tier: Tier) -> i32 {
    let c = report::ctx();
    let start = Instant::now();
    if !alloc::installed() {
        eprintln!("harness error: counting allocator is not installed in this process");
        return 2;
    }
    let mut total = Stats::default();
    let (sweep_len, seeded_runs) = match tier {
        Tier::Quick => (20_000u64, 16_000u64),
        Tier::Thorough => (100_000u64, 60_000u64),
    };
    let wall_cap = match tier {
        Tier::Quick => Duration::from_secs(120),
        Tier::Thorough => Duration::from_secs(1500),
    };
    let seeded_runs = crate::gen::scaled(seeded_runs);
    let sweep = run_stage("sweep", if crate::gen::skip_fixed() { 1 } else { 22 * 16 * 8 }, wall_cap, &mut total, &|i| sweep_scenario(i, sweep_len), &exec_guarded, &[10], 4);
    let pspecs = prefix_specs();
    let (pdepth, ptail) = match tier {
        Tier::Quick => (3u32, 1500u64),
        Tier::Thorough => (4u32, 6000u64),
    };
    let psweep = if sweep.found.is_none() && !crate::gen::skip_fixed() {
        Some(run_stage("prefix-sweep", pspecs.len() as u64 * n_pfx(pdepth) * 4, wall_cap, &mut total, &|i| prefix_scenario(i, &pspecs, pdepth, ptail), &exec_guarded, &[1000], 8))
    } else {
        None
    };
    let seeded = if sweep.found.is_none() && psweep.as_ref().map_or(true, |p| p.found.is_none()) {
        Some(run_stage("seeded", seeded_runs, wall_cap, &mut total, &|i| generate(&mut Rng::new(run_seed(c.seed, PROP, "seeded", i)), tier), &exec_guarded, &[0, 1], 4))
    } else {
        None
    };
    let mut stages = vec![&sweep];
    if let Some(s) = &psweep {
        stages.push(s);
    }
    if let Some(s) = &seeded {
        stages.push(s);
    }
    let violations = conclude(&total, &stages);
    let wall = start.elapsed().as_secs_f64();
    let dead: Vec<&str> = [Fault::MemCap, Fault::DiskQuota].iter().map(|f| f.name()).filter(|n| total.faults.get(n).copied().unwrap_or(0) == 0).collect();
    report::write_evidence(
        &total,
        report::EvidenceMeta {
            level: "exploration",
            rule: "one evaluation = one node fed one long stream (sum of periods 1..=512; shapes monotone up/down, alternating x1000, flat, saw-tooth, random walk, ties-heavy, or two shapes back to back; 2e4 ticks, 5% 2e5 in quick, up to 1e6 in thorough) under a memory cap and a disk quota both equal to B = 256 + 64*sum(periods): bincode size probed at every tick of the first 4*sum+16 and then at every power of two and every 4096th tick; live heap attributable to the node (per-thread counting allocator, harness allocates nothing inside the window) after warm-up vs at every probe, transient peak between probes, and the cost of cloning the final node; 35% of the seeded runs carry a corrupt feed (a fault value every k-th tick) and/or periodic resets, 30% checkpoint and restore the node (or hand over to a clone) in mid-stream and continue with the restored node. Sweep: every indicator x sum of periods 1..=16 x 8 shapes. Prefix sweep: every indicator (periods 2 and 3) x every prefix of length <= 3 (quick) / 4 (thorough) over {-1, -0.0, +0.0, 1, NaN, +inf, -inf} x 4 long monotone tails (rising/falling, positive/negative). distinct_nontrivial counts distinct (indicator, period bucket, stream shape, input mode, stream-length class) tuples whose run got past warm-up.",
            assumptions: vec![
                "heap measured through the Rust global allocator of the harness process; memory obtained by other means (mmap, FFI) would be invisible - the crate has neither".into(),
                "the cap is enforced by detection at probes (and by peak tracking between probes), not by failing the allocation: allocation failure aborts instead of unwinding".into(),
                "bincode 1.3 default configuration is the wire format".into(),
            ],
            wall_s: wall,
            violations,
            exhaustive: false,
            extra: json!({"sweep": {"configs": 22 * 16 * 8, "ticks_each": sweep_len, "stage": sweep.json()}, "prefix_sweep": {"specs": pspecs.len(), "depth": pdepth, "tail_ticks": ptail, "stage": psweep.as_ref().map(|s| s.json())},
                           "seeded": seeded.as_ref().map(|s| s.json()), "dead_fault_kinds": dead, "headroom": total.maxima}),
        },
    );
    println!("C18 {:?}: sweep {} runs, seeded {} runs, {} ticks, {} probes, {} situations, {:.1}s, violations={}", tier, sweep.executed, seeded.as_ref().map_or(0, |s| s.executed), total.ticks, total.comparisons, total.situations.len(), wall, violations);
    for (k, v) in &total.maxima {
        println!("  {} = {:.3}", k, v);
    }
    for (k, v) in &total.counters {
        println!("  {} = {}", k, v);
    }
    if violations > 0 {
        return 1;
    }
    if !dead.is_empty() {
        eprintln!("harness error: fault kinds never fired: {:?}", dead);
        return 2;
    }
    0
}
