//! The one source of randomness of the simulator: SplitMix64-seeded xoshiro256**.
//! Written here (no dependency) so the stream can never change under us.
//! Nothing outside scenario generation draws from it: logging, hashing, statistics never do.

#[derive(Clone, Debug)]
pub struct Rng {
    s: [u64; 4],
}

#[inline]
pub fn splitmix(x: &mut u64) -> u64 {
    *x = x.wrapping_add(0x9E37_79B9_7F4A_7C15);
    let mut z = *x;
    z = (z ^ (z >> 30)).wrapping_mul(0xBF58_476D_1CE4_E5B9);
    z = (z ^ (z >> 27)).wrapping_mul(0x94D0_49BB_1331_11EB);
    z ^ (z >> 31)
}

/// FNV-1a, used for stable (process-independent) hashing of strings and event logs.
#[inline]
pub fn fnv(h: u64, bytes: &[u8]) -> u64 {
    let mut h = if h == 0 { 0xcbf2_9ce4_8422_2325 } else { h };
    for b in bytes {
        h ^= *b as u64;
        h = h.wrapping_mul(0x0000_0100_0000_01b3);
    }
    h
}

#[inline]
pub fn fnv_u64(h: u64, x: u64) -> u64 {
    fnv(h, &x.to_le_bytes())
}

/// seed of run `run` of property `prop` in a batch started with `VERIF_SEED = seed`
pub fn run_seed(seed: u64, prop: &str, stage: &str, run: u64) -> u64 {
    let mut x = seed ^ fnv(0, prop.as_bytes()).rotate_left(17) ^ fnv(0, stage.as_bytes()).rotate_left(41);
    let a = splitmix(&mut x);
    let mut y = a ^ run.wrapping_mul(0xD6E8_FEB8_6659_FD93);
    splitmix(&mut y)
}

impl Rng {
    pub fn new(seed: u64) -> Self {
        let mut x = seed;
        let s = [splitmix(&mut x), splitmix(&mut x), splitmix(&mut x), splitmix(&mut x)];
        Rng { s }
    }
    #[inline]
    pub fn u64(&mut self) -> u64 {
        let r = self.s[1].wrapping_mul(5).rotate_left(7).wrapping_mul(9);
        let t = self.s[1] << 17;
        self.s[2] ^= self.s[0];
        self.s[3] ^= self.s[1];
        self.s[1] ^= self.s[2];
        self.s[0] ^= self.s[3];
        self.s[2] ^= t;
        self.s[3] = self.s[3].rotate_left(45);
        r
    }
    /// uniform in 0..n (n > 0)
    #[inline]
    pub fn below(&mut self, n: u64) -> u64 {
        debug_assert!(n > 0);
        ((self.u64() as u128 * n as u128) >> 64) as u64
    }
    /// uniform in lo..=hi
    #[inline]
    pub fn range(&mut self, lo: usize, hi: usize) -> usize {
        debug_assert!(lo <= hi);
        lo + self.below((hi - lo) as u64 + 1) as usize
    }
    /// uniform in [0,1)
    #[inline]
    pub fn f64(&mut self) -> f64 {
        (self.u64() >> 11) as f64 * (1.0 / (1u64 << 53) as f64)
    }
    #[inline]
    pub fn uniform(&mut self, lo: f64, hi: f64) -> f64 {
        lo + (hi - lo) * self.f64()
    }
    #[inline]
    pub fn chance(&mut self, p: f64) -> bool {
        self.f64() < p
    }
    pub fn pick<'a, T>(&mut self, xs: &'a [T]) -> &'a T {
        &xs[self.below(xs.len() as u64) as usize]
    }
    /// log-uniform integer in lo..=hi (lo >= 1)
    pub fn log_range(&mut self, lo: usize, hi: usize) -> usize {
        let a = (lo as f64).ln();
        let b = ((hi + 1) as f64).ln();
        let v = (a + (b - a) * self.f64()).exp().floor() as usize;
        v.clamp(lo, hi)
    }
    /// standard normal-ish (sum of uniforms; exact shape is irrelevant)
    pub fn gauss(&mut self) -> f64 {
        let mut s = 0.0;
        for _ in 0..4 {
            s += self.f64();
        }
        (s - 2.0) * 1.732
    }
}

#[cfg(test)]
mod tests {
    use super::*;
    #[test]
    fn stable_stream() {
        let mut r = Rng::new(1);
        let a: Vec<u64> = (0..3).map(|_| r.u64()).collect();
        let mut r2 = Rng::new(1);
        let b: Vec<u64> = (0..3).map(|_| r2.u64()).collect();
        assert_eq!(a, b);
        assert_ne!(run_seed(1, "C04", "a", 0), run_seed(1, "C04", "a", 1));
        assert_ne!(run_seed(1, "C04", "a", 0), run_seed(1, "C05", "a", 0));
    }
}
