//! Market / world model, feed and fault injector (all stubs: this is the simulated environment).

use crate::rng::Rng;
use crate::sut::Input;
use serde::{Deserialize, Serialize};

#[derive(Clone, Copy, PartialEq, Eq, Hash, Debug, PartialOrd, Ord, Serialize, Deserialize)]
pub enum Fault {
    Clean,
    Nan,
    PosInf,
    NegInf,
    PosMax,
    NegMax,
    MinPos,
    Subnormal,
    NegZero,
    Zero,
    Huge,
    Negative,
    InvertedBar,
    CloseOutside,
    NegVolume,
    ZeroVolume,
    Spike10,
    Spike1e3,
    Spike1e6,
    RegimeShift,
    Stall,
    Duplicate,
    Drop,
    // op-level faults (counted by the executors, never produced by `World::tick`)
    ResetStorm,
    Crash,
    CrashDuringReplay,
    LostCheckpoint,
    ColdRestart,
    MemCap,
    DiskQuota,
    Migrate,
}

impl Fault {
    pub fn name(self) -> &'static str {
        match self {
            Fault::Clean => "clean",
            Fault::Nan => "nan",
            Fault::PosInf => "+inf",
            Fault::NegInf => "-inf",
            Fault::PosMax => "+max",
            Fault::NegMax => "-max",
            Fault::MinPos => "min_pos",
            Fault::Subnormal => "subnormal",
            Fault::NegZero => "neg_zero",
            Fault::Zero => "zero",
            Fault::Huge => "huge",
            Fault::Negative => "negative",
            Fault::InvertedBar => "inverted_bar",
            Fault::CloseOutside => "close_outside",
            Fault::NegVolume => "neg_volume",
            Fault::ZeroVolume => "zero_volume",
            Fault::Spike10 => "spike_x10",
            Fault::Spike1e3 => "spike_x1e3",
            Fault::Spike1e6 => "spike_x1e6",
            Fault::RegimeShift => "regime_shift",
            Fault::Stall => "stall",
            Fault::Duplicate => "duplicate",
            Fault::Drop => "drop",
            Fault::ResetStorm => "reset_storm",
            Fault::Crash => "crash",
            Fault::CrashDuringReplay => "crash_during_replay",
            Fault::LostCheckpoint => "lost_checkpoint_write",
            Fault::ColdRestart => "cold_restart",
            Fault::MemCap => "mem_cap",
            Fault::DiskQuota => "disk_quota",
            Fault::Migrate => "migrate",
        }
    }
    pub fn is_nonfinite(self) -> bool {
        matches!(self, Fault::Nan | Fault::PosInf | Fault::NegInf)
    }
}

/// value-level corruptions: everything a corrupt feed can put into a tick
pub const VALUE_FAULTS: [Fault; 15] = [
    Fault::Nan,
    Fault::PosInf,
    Fault::NegInf,
    Fault::PosMax,
    Fault::NegMax,
    Fault::MinPos,
    Fault::Subnormal,
    Fault::NegZero,
    Fault::Zero,
    Fault::Huge,
    Fault::Negative,
    Fault::InvertedBar,
    Fault::CloseOutside,
    Fault::NegVolume,
    Fault::ZeroVolume,
];
/// finite, magnitude-bounded disturbances (legal for C17)
pub const FINITE_FAULTS: [Fault; 14] = [
    Fault::Negative,
    Fault::NegVolume,
    Fault::Spike10,
    Fault::Spike1e3,
    Fault::Spike1e6,
    Fault::RegimeShift,
    Fault::Stall,
    Fault::Duplicate,
    Fault::Drop,
    Fault::Zero,
    Fault::NegZero,
    Fault::MinPos,
    Fault::Subnormal,
    Fault::ZeroVolume,
];

pub const ALL_FEED_FAULTS: [Fault; 22] = [
    Fault::Nan,
    Fault::PosInf,
    Fault::NegInf,
    Fault::PosMax,
    Fault::NegMax,
    Fault::MinPos,
    Fault::Subnormal,
    Fault::NegZero,
    Fault::Zero,
    Fault::Huge,
    Fault::Negative,
    Fault::InvertedBar,
    Fault::CloseOutside,
    Fault::NegVolume,
    Fault::ZeroVolume,
    Fault::Spike10,
    Fault::Spike1e3,
    Fault::Spike1e6,
    Fault::RegimeShift,
    Fault::Stall,
    Fault::Duplicate,
    Fault::Drop,
];

#[derive(Clone, Copy, PartialEq, Eq, Hash, Debug, PartialOrd, Ord, Serialize, Deserialize)]
pub enum Regime {
    Walk,
    Trend,
    Osc,
    Saw,
    Alt,
    Plateau,
    Few,
    Up,
    Down,
    Flat,
    /// few values of both signs including both zeros: -2l, -l, -0.0, +0.0, l, 2l (ties, sign changes)
    Signed,
}
pub const ALL_REGIMES: [Regime; 11] =
    [Regime::Walk, Regime::Trend, Regime::Osc, Regime::Saw, Regime::Alt, Regime::Plateau, Regime::Few, Regime::Up, Regime::Down, Regime::Flat, Regime::Signed];

/// Deterministic description of a stream: the same descriptor always expands to the same ticks
/// (used both while generating and by replay files for long streams).
#[derive(Clone, Copy, PartialEq, Debug, Serialize, Deserialize)]
pub struct StreamDesc {
    pub regime: Regime,
    pub level: crate::sut::Fx,
    pub saw: usize,
    pub seed: u64,
    /// all prices negated (a market quoted below zero: spreads, some futures)
    #[serde(default)]
    pub neg: bool,
}

#[derive(Clone, Debug)]
pub struct World {
    pub regime: Regime,
    pub level: f64,
    pub saw: usize,
    pub neg: bool,
    x: f64,
    t: u64,
    /// net number of x1000 regime shifts applied so far (kept within -2..=2 so magnitudes stay bounded)
    shift_exp: i32,
    rng: Rng,
}

impl World {
    pub fn from_desc(d: &StreamDesc) -> World {
        World { regime: d.regime, level: d.level.0, saw: d.saw.max(2), neg: d.neg, x: d.level.0, t: 0, shift_exp: 0, rng: Rng::new(d.seed) }
    }
    pub fn random_desc(rng: &mut Rng) -> StreamDesc {
        let regime = *rng.pick(&ALL_REGIMES);
        let level = 10f64.powf(rng.uniform(-3.0, 6.0));
        StreamDesc { regime, level: crate::sut::Fx(level), saw: rng.range(2, 31), seed: rng.u64(), neg: rng.chance(0.08) }
    }
    pub fn random(rng: &mut Rng) -> World {
        World::from_desc(&World::random_desc(rng))
    }
    pub fn shift_level(&mut self, factor: f64) {
        self.level *= factor;
        self.x *= factor;
    }
    /// regime shift x1000 (up) or /1000 (down); the direction is flipped when the level has already
    /// drifted by 1e6 so that a fault storm cannot walk the prices into overflow
    pub fn regime_shift(&mut self, up: bool) {
        let up = if self.shift_exp >= 2 {
            false
        } else if self.shift_exp <= -2 {
            true
        } else {
            up
        };
        if up {
            self.shift_exp += 1;
            self.shift_level(1000.0);
        } else {
            self.shift_exp -= 1;
            self.shift_level(0.001);
        }
    }
    fn price(&mut self) -> f64 {
        let l = self.level;
        let t = self.t;
        let x = match self.regime {
            Regime::Walk => {
                let g = self.rng.gauss();
                (self.x * (0.02 * g).exp()).clamp(l * 0.01, l * 100.0)
            }
            Regime::Trend => {
                let g = self.rng.gauss();
                (self.x * (1.002 + 0.004 * g)).clamp(l * 0.01, l * 1e4)
            }
            Regime::Osc => l * (1.0 + 0.3 * ((t as f64) * 0.37).sin()),
            Regime::Saw => l * (1.0 + (t % self.saw as u64) as f64 / self.saw as f64),
            Regime::Alt => {
                if t % 2 == 0 {
                    l
                } else {
                    l * 1000.0
                }
            }
            Regime::Plateau => {
                if self.rng.chance(0.05) {
                    l * self.rng.uniform(0.5, 2.0)
                } else {
                    self.x
                }
            }
            Regime::Few => l * (1 + self.rng.below(3)) as f64,
            Regime::Up => l * (1.0 + 0.01 * t as f64),
            Regime::Down => l * 1000.0 / (1.0 + 0.01 * t as f64),
            Regime::Flat => l,
            Regime::Signed => [-2.0 * l, -l, -0.0, 0.0, l, 2.0 * l][self.rng.below(6) as usize],
        };
        self.t += 1;
        x
    }
    /// one clean, valid bar (low <= open,close <= high, volume >= 0, all finite; positive except in the Signed regime and in negated markets)
    pub fn clean(&mut self) -> Input {
        let o = self.x;
        let c = self.price();
        self.x = c;
        let (hi, lo) = if o >= c { (o, c) } else { (c, o) };
        let (h, l) = if self.rng.chance(0.2) {
            (hi, lo)
        } else {
            let a = self.rng.f64();
            let b = self.rng.f64();
            (hi + hi.abs() * 0.01 * a, lo - lo.abs() * 0.01 * b)
        };
        let v = if self.rng.chance(0.1) { 0.0 } else { 1000.0 * self.rng.uniform(0.0, 2.0) };
        if self.neg {
            // negated market: the bar stays well-formed (low <= open, close <= high)
            return Input { o: -o, h: -l, l: -h, c: -c, v };
        }
        Input { o, h, l, c, v }
    }
}

/// Apply a value-level fault to a clean tick. `rng` decides which fields are hit.
pub fn corrupt(rng: &mut Rng, f: Fault, x: Input) -> Input {
    let val = match f {
        Fault::Nan => Some(if rng.chance(0.5) { f64::NAN } else { -f64::NAN }),
        Fault::PosInf => Some(f64::INFINITY),
        Fault::NegInf => Some(f64::NEG_INFINITY),
        Fault::PosMax => Some(f64::MAX),
        Fault::NegMax => Some(f64::MIN),
        Fault::MinPos => Some(f64::MIN_POSITIVE),
        Fault::Subnormal => Some(f64::from_bits(1 + rng.below(1 << 20))),
        Fault::NegZero => Some(-0.0),
        Fault::Zero => Some(0.0),
        Fault::Huge => Some(if rng.chance(0.5) { 1e300 } else { -1e300 }),
        _ => None,
    };
    if let Some(v) = val {
        // all price fields (what a scalar feed would see), or a random non-empty subset of the five
        let mut fs = x.fields();
        if rng.chance(0.5) {
            for i in 0..4 {
                fs[i] = v;
            }
            if rng.chance(0.3) {
                fs[4] = v;
            }
        } else {
            let mask = 1 + rng.below(31);
            for i in 0..5 {
                if mask >> i & 1 == 1 {
                    fs[i] = v;
                }
            }
            // scalar-mode nodes read `c`: make sure the fault is visible there most of the time
            if rng.chance(0.7) {
                fs[3] = v;
            }
        }
        return Input::from_fields(fs);
    }
    match f {
        Fault::Negative => Input { o: -x.o, h: -x.h, l: -x.l, c: -x.c, v: x.v },
        Fault::InvertedBar => Input { o: x.o, h: x.l * 0.9, l: x.h * 1.1, c: x.c, v: x.v },
        Fault::CloseOutside => {
            if rng.chance(0.5) {
                Input { c: x.h * 1.5, ..x }
            } else {
                Input { c: x.l * 0.5, ..x }
            }
        }
        Fault::NegVolume => Input { v: -x.v - 1.0, ..x },
        Fault::ZeroVolume => Input { v: 0.0, ..x },
        Fault::Spike10 | Fault::Spike1e3 | Fault::Spike1e6 => {
            let k = match f {
                Fault::Spike10 => 10.0,
                Fault::Spike1e3 => 1e3,
                _ => 1e6,
            };
            if rng.chance(0.25) {
                Input { v: x.v * k + k, ..x }
            } else if rng.chance(0.2) {
                // downward spike
                Input { o: x.o, h: x.h, l: x.l / k, c: x.c / k, v: x.v }
            } else {
                Input { o: x.o, h: x.h * k, l: x.l, c: x.c * k, v: x.v }
            }
        }
        _ => x,
    }
}

/// Deterministic (PRNG-free) corruption used inside generated streams: variant selects the fields.
pub fn corrupt_fixed(f: Fault, x: Input, variant: u64) -> Input {
    let val = match f {
        Fault::Nan => Some(f64::NAN),
        Fault::PosInf => Some(f64::INFINITY),
        Fault::NegInf => Some(f64::NEG_INFINITY),
        Fault::PosMax => Some(f64::MAX),
        Fault::NegMax => Some(f64::MIN),
        Fault::MinPos => Some(f64::MIN_POSITIVE),
        Fault::Subnormal => Some(f64::from_bits(1 + variant % 1000)),
        Fault::NegZero => Some(-0.0),
        Fault::Zero => Some(0.0),
        Fault::Huge => Some(if variant % 2 == 0 { 1e300 } else { -1e300 }),
        _ => None,
    };
    match (val, f) {
        (Some(v), _) => match variant % 3 {
            0 => Input { o: v, h: v, l: v, c: v, v: x.v },
            1 => Input { o: v, h: v, l: v, c: v, v },
            _ => Input { h: v, c: v, ..x },
        },
        (None, Fault::Negative) => Input { o: -x.o, h: -x.h, l: -x.l, c: -x.c, v: x.v },
        (None, Fault::InvertedBar) => Input { h: x.l * 0.9, l: x.h * 1.1, ..x },
        (None, Fault::CloseOutside) => Input { c: x.h * 1.5, ..x },
        (None, Fault::NegVolume) => Input { v: -x.v - 1.0, ..x },
        (None, Fault::ZeroVolume) => Input { v: 0.0, ..x },
        (None, Fault::Spike10) => Input { h: x.h * 10.0, c: x.c * 10.0, ..x },
        (None, Fault::Spike1e3) => Input { h: x.h * 1e3, c: x.c * 1e3, ..x },
        (None, Fault::Spike1e6) => Input { h: x.h * 1e6, c: x.c * 1e6, ..x },
        _ => x,
    }
}

/// Expansion of an `Op::Gen`: calls `f(tick, fault, reset_before)` for each of the `len` ticks.
pub fn expand_gen(g: &StreamDesc, skip: u64, len: u64, fault: Option<Fault>, every: u64, reset_every: u64, mut f: impl FnMut(&Input, Fault, bool) -> bool) {
    let mut w = World::from_desc(g);
    for _ in 0..skip {
        let _ = w.clean();
    }
    for j in 0..len {
        let x = w.clean();
        let reset = reset_every > 0 && j > 0 && j % reset_every == 0;
        let (x, fk) = match fault {
            Some(fk) if every > 0 && j % every == every - 1 => (corrupt_fixed(fk, x, j / every), fk),
            _ => (x, Fault::Clean),
        };
        if !f(&x, fk, reset) {
            return;
        }
    }
}

/// Which fault kinds are switched on for this run and at what rate (swarm testing).
#[derive(Clone, Debug)]
pub struct FaultPlan {
    pub enabled: Vec<(Fault, f64)>,
}

impl FaultPlan {
    pub fn none() -> Self {
        FaultPlan { enabled: vec![] }
    }
    /// random subset of `pool`, each with its own rate in [lo,hi] (log-uniform)
    pub fn swarm(rng: &mut Rng, pool: &[Fault], lo: f64, hi: f64) -> Self {
        let mut enabled = vec![];
        // subset size biased to small
        let k = match rng.below(10) {
            0..=2 => 1,
            3..=5 => 2,
            6..=7 => 3,
            8 => rng.range(1, pool.len()),
            _ => pool.len(),
        };
        let mut idx: Vec<usize> = (0..pool.len()).collect();
        for i in 0..k.min(pool.len()) {
            let j = i + rng.below((idx.len() - i) as u64) as usize;
            idx.swap(i, j);
            let rate = (lo.ln() + (hi.ln() - lo.ln()) * rng.f64()).exp();
            enabled.push((pool[idx[i]], rate));
        }
        FaultPlan { enabled }
    }
    /// decide the fault of the next tick (Clean if none fires)
    pub fn draw(&self, rng: &mut Rng) -> Fault {
        for (f, r) in &self.enabled {
            if rng.chance(*r) {
                return *f;
            }
        }
        Fault::Clean
    }
}

/// Produce the ticks the node receives for one step of the world under a fault plan.
/// Returns 0 (drop), 1, 2 (duplicate) or k (stall) ticks, each tagged with the fault that made it.
pub fn tick(world: &mut World, plan: &FaultPlan, rng: &mut Rng, out: &mut Vec<(Input, Fault)>) {
    let f = plan.draw(rng);
    match f {
        Fault::Clean => out.push((world.clean(), Fault::Clean)),
        Fault::Drop => {
            let _ = world.clean();
        }
        Fault::Duplicate => {
            let x = world.clean();
            out.push((x, Fault::Clean));
            out.push((x, Fault::Duplicate));
        }
        Fault::Stall => {
            let x = world.clean();
            out.push((x, Fault::Clean));
            let k = rng.range(1, 6);
            let s = Input { o: x.c, h: x.c, l: x.c, c: x.c, v: 0.0 };
            for _ in 0..k {
                out.push((s, Fault::Stall));
            }
        }
        Fault::RegimeShift => {
            world.regime_shift(rng.chance(0.5));
            out.push((world.clean(), Fault::RegimeShift));
        }
        _ => {
            let x = world.clean();
            out.push((corrupt(rng, f, x), f));
        }
    }
}
