//! C06 — checkpoint to a simulated disk, crash at arbitrary points, restore (+ journal replay):
//! the restored node is indistinguishable from the in-memory instance the crash destroyed.

use crate::driver::{conclude, run_stage};
use crate::gen::{self, Tier};
use crate::oracle::{out_rel12, Scale};
use crate::report;
use crate::rng::{fnv_u64, run_seed, Rng};
use crate::runner::{guarded, on, PanicVerdict, Side};
use crate::scenario::{Op, Scenario, Violation};
use crate::stats::{phase, Stats};
use crate::sut::{build_ref, build_spec, item_bits, item_roundtrip, make_item, Input, Kind, Mode, NodeSpec, Out, Params, Sut, ALL_KINDS};
use crate::world::{self, corrupt, Fault, FaultPlan, World, ALL_FEED_FAULTS, VALUE_FAULTS};
use serde_json::json;
use std::time::{Duration, Instant};

pub const PROP: &str = "C06";

fn viol(class: &str, kind: Kind, step: usize, detail: String, expected: Vec<String>, got: Vec<String>) -> Violation {
    Violation {
        property: PROP.into(),
        class: format!("C06/{}/{}", class, kind.name()),
        step,
        detail,
        expected,
        got,
        oracle: "the never-serialized in-memory instance (shadow) that lived through the same feed and resets".into(),
    }
}

/// How the bytes come back (chosen by the position of the op, so a scenario replays exactly): 0 = from the slice,
/// 1 = through an `io::Read`, 2 = `deserialize_in_place` over a clone of the live instance (a roll-back),
/// 3 = `deserialize_in_place` over a recycled instance of the same type that had larger windows and was used.
fn restore(node: &dyn Sut, spec: &NodeSpec, bytes: &[u8], how: usize, st: &mut Stats) -> Result<Box<dyn Sut>, String> {
    let k = spec.kind;
    match how % 4 {
        0 => node.load(bytes),
        1 => node.load_reader(bytes),
        3 if spec.params.sum_periods(k) <= 4096 => {
            st.bump("restores_in_place_over_recycled_larger_instance");
            let p = &spec.params;
            let big = NodeSpec { kind: k, params: Params::new(p.p1 * 2 + 3, p.p2 * 2 + 3, p.p3 * 2 + 3, p.mult.0), mode: spec.mode, dflt: false };
            let mut t = build_ref(&big);
            for j in 0..big.params.sum_periods(k) + 5 {
                t.feed(spec.mode, &Input::scalar(1e6 * (1 + (j * 7) % 11) as f64));
            }
            t.load_in_place(bytes)?;
            Ok(t)
        }
        _ => {
            st.bump("restores_in_place_rollback");
            let mut t = node.fork();
            t.load_in_place(bytes)?;
            Ok(t)
        }
    }
}

enum J {
    Feed(Input, Out),
    Reset,
}

struct Generation {
    bytes: Vec<u8>,
    offset: usize,
    count_at: u64,
    was_reset_at: bool,
    fault_at: Fault,
}

fn params_of(s: &dyn Sut) -> (String, Option<usize>, Option<u64>) {
    (s.display(), s.period(), s.multiplier().map(f64::to_bits))
}

pub fn exec(sc: &Scenario, st: &mut Stats) -> Option<Violation> {
    let spec = sc.nodes[0];
    let kind = spec.kind;
    let window = spec.params.window(kind);
    let mut node = build_spec(&spec);
    let mut shadow = crate::sut::build_ref(&spec);
    let mut journal: Vec<J> = vec![];
    let mut disk: Vec<Generation> = vec![];
    let mut scale = Scale::new(spec.params.sum_periods(kind).max(window));
    let mut count = 0u64; // ticks since last reset
    let mut was_reset = false;
    let mut last_fault = Fault::Clean;
    let mut digest = 0u64;
    // (phase at checkpoint, fault before checkpoint, restore kind) of the most recent real restore
    let mut restored: Option<(crate::stats::Phase, Fault, u64)> = None;
    let mut since_restore = 0u64;
    let mut nontrivial = false;
    let mut micro: Vec<(Input, Fault)> = vec![];
    for (i, op) in sc.ops.iter().enumerate() {
        st.op(op);
        match op {
            Op::Feed { .. } | Op::Gen { .. } => {
                micro.clear();
                match op {
                    Op::Feed { x, f, .. } => micro.push((*x, *f)),
                    Op::Gen { g, skip, len, fault, every, .. } => world::expand_gen(g, *skip, *len, *fault, *every, 0, |x, f, _| {
                        micro.push((*x, f));
                        true
                    }),
                    _ => {}
                }
                for (x, f) in micro.iter() {
                    st.ticks += 1;
                    st.fault(*f);
                    if *f != Fault::Clean {
                        last_fault = *f;
                    }
                    let (eo, _) = on(Side::Reference, || shadow.feed(spec.mode, x));
                    let (go, used) = on(Side::Subject, || node.feed(spec.mode, x));
                    scale.push(x);
                    for b in go.bits() {
                        digest = fnv_u64(digest, b);
                    }
                    st.comparisons += 1;
                    if let Some((ph, fb, how)) = restored {
                        nontrivial = true;
                        let sb = if since_restore < 2 { since_restore } else if since_restore < window as u64 { 2 } else if since_restore == window as u64 { 3 } else { 4 };
                        st.situation(kind, &spec.params, ph, how, fb, used, sb);
                        since_restore += 1;
                    }
                    if !go.same_bits(&eo) {
                        if let Some(c) = out_rel12(&go, &eo, scale.of(kind)) {
                            return Some(viol("output-mismatch", kind, i, format!("component {} differs from the shadow {} ticks after the last restore", c, since_restore), eo.hex(), go.hex()));
                        }
                        st.bump("within_rel12_but_not_bit_identical");
                    }
                    // (iv) a DataItem that goes through the disk compares equal and field-wise bit-equal
                    if spec.mode == Mode::Item {
                        if let Some(it) = make_item(x) {
                            match item_roundtrip(&it) {
                                Ok(back) => {
                                    st.bump("dataitem_roundtrips");
                                    if back != it || item_bits(&back) != item_bits(&it) {
                                        return Some(viol("dataitem-mismatch", kind, i, "DataItem changed by serialize/deserialize".into(), vec![format!("{:?}", it)], vec![format!("{:?}", back)]));
                                    }
                                }
                                Err(e) => return Some(viol("serde-error", kind, i, format!("DataItem round-trip failed: {}", e), vec![], vec![e])),
                            }
                        }
                    }
                    journal.push(J::Feed(*x, eo));
                    count += 1;
                }
            }
            Op::Reset { .. } => {
                on(Side::Reference, || shadow.reset());
                on(Side::Subject, || node.reset());
                journal.push(J::Reset);
                scale.reset();
                count = 0;
                was_reset = true;
            }
            Op::Ckpt { lost, .. } => {
                let bytes = match on(Side::Subject, || node.save()) {
                    Ok(b) => b,
                    Err(e) => return Some(viol("serde-error", kind, i, format!("serialize failed: {}", e), vec![], vec![e])),
                };
                if *lost {
                    st.fault(Fault::LostCheckpoint);
                } else {
                    disk.push(Generation { bytes, offset: journal.len(), count_at: count, was_reset_at: was_reset, fault_at: last_fault });
                    if disk.len() > 3 {
                        disk.remove(0);
                    }
                }
            }
            Op::Crash { recrash, .. } => {
                st.fault(Fault::Crash);
                // the in-memory node is gone; only durable state survives
                let (mut fresh, offset, info) = match disk.last() {
                    Some(g) => {
                        // the way back rotates with the step: slice, io::Read, in place over the live state, in place over a recycled instance
                        let r = match on(Side::Subject, || restore(node.as_ref(), &spec, &g.bytes, i, st)) {
                            Ok(r) => r,
                            Err(e) => return Some(viol("serde-error", kind, i, format!("deserialize of bytes we wrote failed: {}", e), vec![], vec![e])),
                        };
                        (r, g.offset, Some((phase(g.count_at, window, g.was_reset_at), g.fault_at)))
                    }
                    None => {
                        st.bump("crash_without_durable_checkpoint");
                        (build_spec(&spec), 0, None)
                    }
                };
                let mut k = offset;
                let mut recrashed = *recrash == 0 || info.is_none();
                while k < journal.len() {
                    if !recrashed && (k - offset) as u32 == *recrash {
                        // crash again part-way through the replay: start over from the same generation
                        recrashed = true;
                        st.fault(Fault::CrashDuringReplay);
                        let g = disk.last().unwrap();
                        fresh = match on(Side::Subject, || restore(node.as_ref(), &spec, &g.bytes, i + 1, st)) {
                            Ok(r) => r,
                            Err(e) => return Some(viol("serde-error", kind, i, format!("deserialize failed: {}", e), vec![], vec![e])),
                        };
                        k = offset;
                        continue;
                    }
                    match &journal[k] {
                        J::Feed(x, rec) => {
                            let (o, _) = on(Side::Subject, || fresh.feed(spec.mode, x));
                            st.comparisons += 1;
                            st.bump("journal_replay_comparisons");
                            if !o.same_bits(rec) {
                                if let Some(c) = out_rel12(&o, rec, scale.of(kind).max(x.max_abs_price())) {
                                    return Some(viol("replay-mismatch", kind, i, format!("component {} of journal entry {} (of {} after the checkpoint) differs from the output originally produced", c, k - offset, journal.len() - offset), rec.hex(), o.hex()));
                                }
                            }
                        }
                        J::Reset => on(Side::Subject, || fresh.reset()),
                    }
                    k += 1;
                }
                node = fresh;
                let (a, b) = (params_of(node.as_ref()), params_of(shadow.as_ref()));
                if a != b {
                    return Some(viol("params-changed", kind, i, "period/multiplier/Display differ after restore".into(), vec![format!("{:?}", b)], vec![format!("{:?}", a)]));
                }
                if let Some((ph, fb)) = info {
                    restored = Some((ph, fb, 7 + (journal.len() - offset).min(3) as u64 * 16));
                    since_restore = 0;
                }
            }
            Op::RoundTrip { times, json: true, .. } => {
                // a human-readable wire format. JSON cannot carry NaN/inf, so a state holding one may fail
                // to round-trip - that is not judged; but IF it round-trips it must behave identically
                let ph = phase(count, window, was_reset);
                let mut done = 0;
                for _ in 0..(*times).max(1) {
                    // lossless only if no value had to be written as `null` (NaN/inf become null, and an Option holding
                    // one would silently come back as None) - those states are skipped, not judged
                    // ... but a text without `null` carries the complete state, and the library must be able to read back
                    // what it has just written (a writer/reader disagreement on field names is invisible to bincode)
                    let back = match on(Side::Subject, || node.save_json().ok().filter(|t| !t.contains("null"))) {
                        None => None,
                        Some(t) => match on(Side::Subject, || node.load_json(&t)) {
                            Ok(b) => Some(b),
                            Err(e) => {
                                let shown: String = t.chars().take(400).collect();
                                return Some(viol("serde-error", kind, i, format!("serde_json cannot read back the text the same instance has just written: {}", e), vec!["Ok".into()], vec![e, shown]));
                            }
                        },
                    };
                    match back {
                        Some(b) => {
                            node = b;
                            done += 1;
                            st.bump("json_roundtrips");
                        }
                        None => {
                            st.bump("json_roundtrips_not_representable_skipped");
                            break;
                        }
                    }
                }
                if done > 0 {
                    let (a, b) = (params_of(node.as_ref()), params_of(shadow.as_ref()));
                    if a != b {
                        return Some(viol("params-changed", kind, i, "period/multiplier/Display differ after JSON round-trip".into(), vec![format!("{:?}", b)], vec![format!("{:?}", a)]));
                    }
                    restored = Some((ph, last_fault, 9 + (*times).min(3) as u64 * 16));
                    since_restore = 0;
                }
            }
            Op::RoundTrip { times, .. } => {
                let ph = phase(count, window, was_reset);
                let mut done_rt = 0usize;
                for _ in 0..(*times).max(1) {
                    done_rt += 1;
                    let bytes = match on(Side::Subject, || node.save()) {
                        Ok(b) => b,
                        Err(e) => return Some(viol("serde-error", kind, i, format!("serialize failed: {}", e), vec![], vec![e])),
                    };
                    node = match on(Side::Subject, || restore(node.as_ref(), &spec, &bytes, i + done_rt, st)) {
                        Ok(r) => r,
                        Err(e) => return Some(viol("serde-error", kind, i, format!("deserialize of bytes we wrote failed: {}", e), vec![], vec![e])),
                    };
                    st.bump("roundtrips");
                }
                let (a, b) = (params_of(node.as_ref()), params_of(shadow.as_ref()));
                if a != b {
                    return Some(viol("params-changed", kind, i, "period/multiplier/Display differ after round-trip".into(), vec![format!("{:?}", b)], vec![format!("{:?}", a)]));
                }
                restored = Some((ph, last_fault, 8 + (*times).min(3) as u64 * 16));
                since_restore = 0;
            }
            Op::Fork { .. } => {
                // the node that will be checkpointed is a clone of the one that lived through the history
                node = on(Side::Subject, || node.fork());
                st.bump("node_replaced_by_clone");
            }
            Op::Format { .. } => {
                let d = on(Side::Subject, || (node.display(), node.debug().len()));
                let e = on(Side::Reference, || shadow.display());
                if d.0 != e {
                    return Some(viol("params-changed", kind, i, "Display differs from the shadow".into(), vec![e], vec![d.0]));
                }
            }
            _ => {}
        }
    }
    st.digest = st.digest.wrapping_add(fnv_u64(digest, sc.ops.len() as u64));
    if nontrivial {
        st.nontrivial_runs += 1;
    }
    None
}

pub fn exec_guarded(sc: &Scenario, st: &mut Stats) -> Option<Violation> {
    match guarded(|| exec(sc, st)) {
        Ok(v) => v,
        Err(PanicVerdict::Subject(m)) => Some(viol("panic-after-restore", sc.nodes[0].kind, sc.ops.len().saturating_sub(1), format!("the node that went through the disk panicked where the shadow returned: {}", m), vec![], vec![m])),
        Err(PanicVerdict::Reference(_)) => {
            st.bump("reference_panicked_run_skipped");
            None
        }
        Err(PanicVerdict::Harness(m)) => {
            eprintln!("harness error: {}", m);
            std::process::exit(2);
        }
    }
}

pub fn exec_plain(sc: &Scenario) -> Option<Violation> {
    exec_guarded(sc, &mut Stats::default())
}

fn feed_n(ops: &mut Vec<Op>, w: &mut World, plan: &FaultPlan, rng: &mut Rng, n: usize) {
    let mut buf = vec![];
    let mut fed = 0;
    while fed < n {
        buf.clear();
        world::tick(w, plan, rng, &mut buf);
        for (x, f) in buf.drain(..) {
            ops.push(Op::Feed { n: 0, x, f });
            fed += 1;
        }
    }
}

pub fn generate(rng: &mut Rng, tier: Tier) -> Scenario {
    let spec = gen::random_spec(rng, tier, None);
    let kind = spec.kind;
    let sp = spec.params.sum_periods(kind).max(1);
    let n = spec.params.window(kind);
    let mut w = World::random(rng);
    let fault_free = rng.chance(0.15);
    let plan = if fault_free { FaultPlan::none() } else { FaultPlan::swarm(rng, &ALL_FEED_FAULTS, 0.005, 0.4) };
    let mut ops = vec![];
    let segments = rng.range(1, 4);
    for seg in 0..segments {
        // rarely: a very long uptime before the first checkpoint
        if seg == 0 && rng.chance(0.001) && sp <= 64 {
            let len = match tier {
                Tier::Quick => rng.range(66_000, 90_000),
                Tier::Thorough => rng.range(66_000, 400_000),
            } as u64;
            let fault = if rng.chance(0.4) && !fault_free { Some(*rng.pick(&VALUE_FAULTS)) } else { None };
            ops.push(Op::Gen { n: 0, g: World::random_desc(rng), skip: 0, len, fault, every: if fault.is_some() { rng.range(2, 3000) as u64 } else { 0 }, reset_every: 0, clone_every: 0 });
        }
        // history up to the checkpoint, biased to the interesting window phases
        let k1 = match rng.below(8) {
            0 => 0,
            1 => 1,
            2 => n.saturating_sub(1),
            3 => n,
            4 => n + 1,
            5 => n + n / 2 + 1,
            _ => rng.range(0, 3 * sp + 20),
        };
        feed_n(&mut ops, &mut w, &plan, rng, k1);
        if rng.chance(0.15) {
            ops.push(Op::Reset { n: 0 });
            if rng.chance(0.5) {
                {
                    let k = rng.range(0, 3);
                    feed_n(&mut ops, &mut w, &plan, rng, k);
                }
            }
        }
        if !fault_free && rng.chance(0.2) {
            // checkpoint right after a corrupt tick
            let f = *rng.pick(&VALUE_FAULTS);
            let x = corrupt(rng, f, w.clean());
            ops.push(Op::Feed { n: 0, x, f });
        }
        if rng.chance(0.05) {
            ops.push(Op::Fork { src: 0, dst: 0, into: false });
        }
        if rng.chance(0.3) {
            ops.push(Op::RoundTrip { n: 0, times: rng.range(1, 5) as u32, json: rng.chance(0.3) });
        } else {
            ops.push(Op::Ckpt { n: 0, lost: false });
            if rng.chance(0.3) {
                // a second checkpoint whose write may be lost: the older generation must still work
                {
                    let k = rng.range(0, n + 2);
                    feed_n(&mut ops, &mut w, &plan, rng, k);
                }
                ops.push(Op::Ckpt { n: 0, lost: rng.chance(0.5) });
            }
            // journal: ticks (and maybe a reset) after the checkpoint, lost with the crash
            let k2 = match rng.below(4) {
                0 => 0,
                1 => 1,
                _ => rng.range(0, n + 5),
            };
            feed_n(&mut ops, &mut w, &plan, rng, k2);
            if rng.chance(0.05) {
                ops.push(Op::Reset { n: 0 });
                {
                    let k = rng.range(0, 3);
                    feed_n(&mut ops, &mut w, &plan, rng, k);
                }
            }
            let recrash = if k2 > 0 && rng.chance(0.25) { rng.range(1, k2) as u32 } else { 0 };
            ops.push(Op::Crash { n: 0, recrash });
        }
        if rng.chance(0.1) {
            ops.push(Op::Format { n: 0 });
        }
        // continuation long enough to flush every window
        {
                    let k = rng.range(sp + 2, 2 * sp + 12);
                    feed_n(&mut ops, &mut w, &plan, rng, k);
                }
    }
    Scenario { property: PROP.into(), stage: if fault_free { "seeded-fault-free".into() } else { "seeded-faulty".into() }, nodes: vec![spec], ops, workers: 0 }
}

// ---------------------------------------------------------------------------------------------
// fixed corpus: for periods 1..=4, checkpoint at EVERY prefix of a short history, crash after
// every journal length 0..=3, 3 data patterns

fn sweep_specs() -> Vec<NodeSpec> {
    let mut v = vec![];
    for &k in ALL_KINDS.iter() {
        let modes: Vec<Mode> = if k.has_scalar() { vec![Mode::Scalar, Mode::Bar, Mode::Item] } else { vec![Mode::Bar, Mode::Item] };
        let tuples: Vec<(usize, usize, usize)> = match k.n_periods() {
            0 => vec![(1, 1, 1)],
            1 => (1..=4).map(|p| (p, 1, 1)).collect(),
            2 => vec![(1, 1, 1), (2, 3, 1), (3, 2, 1), (4, 4, 1)],
            _ => vec![(1, 1, 1), (1, 2, 1), (2, 3, 2), (3, 4, 2), (4, 2, 3)],
        };
        for m in modes {
            for &(a, b, c) in &tuples {
                v.push(NodeSpec { kind: k, params: Params::new(a, b, c, 2.0), mode: m, dflt: false });
            }
        }
    }
    v
}

fn pattern(p: u64, j: usize) -> (Input, Fault) {
    let j = j as f64;
    match p {
        0 => (Input { o: 10.0 + j, h: 12.0 + 2.0 * j, l: 9.0 - 0.5 * j, c: 11.0 + j, v: 100.0 + j }, Fault::Clean),
        1 => {
            let c = 20.0 - (j * 1.5) % 7.0;
            (Input { o: c, h: c + 1.0, l: c - 1.0, c, v: if (j as u64) % 3 == 0 { 0.0 } else { 50.0 } }, Fault::Clean)
        }
        _ => {
            if (j as u64) % 5 == 2 {
                (Input::scalar(f64::NAN), Fault::Nan)
            } else if (j as u64) % 7 == 4 {
                (Input::scalar(f64::INFINITY), Fault::PosInf)
            } else {
                (Input { o: 5.0, h: 6.0 + j, l: 4.0 - j, c: 5.0 + (j % 2.0), v: 10.0 }, Fault::Clean)
            }
        }
    }
}

const SWEEP_MAX_LEN: u64 = 16; // >= 2*sum_periods+4 for the largest sweep spec (4,4,4 is not used; max sum 9 -> 22 capped)

fn sweep_count(specs: &[NodeSpec]) -> u64 {
    specs.len() as u64 * 3 * (SWEEP_MAX_LEN + 1) * 4 * 2
}

fn sweep_scenario(idx: u64, specs: &[NodeSpec]) -> Scenario {
    let per = 3 * (SWEEP_MAX_LEN + 1) * 4 * 2;
    let spec = specs[(idx / per) as usize];
    let mut r = idx % per;
    let reset_before = r % 2 == 1;
    r /= 2;
    let jlen = (r % 4) as usize;
    r /= 4;
    let k = (r % (SWEEP_MAX_LEN + 1)) as usize;
    r /= SWEEP_MAX_LEN + 1;
    let pat = r;
    let sp = spec.params.sum_periods(spec.kind);
    let mut ops = vec![];
    let mut j = 0;
    for _ in 0..k {
        let (x, f) = pattern(pat, j);
        ops.push(Op::Feed { n: 0, x, f });
        j += 1;
    }
    if reset_before {
        ops.push(Op::Reset { n: 0 });
    }
    ops.push(Op::Ckpt { n: 0, lost: false });
    for _ in 0..jlen {
        let (x, f) = pattern(pat, j);
        ops.push(Op::Feed { n: 0, x, f });
        j += 1;
    }
    ops.push(Op::Crash { n: 0, recrash: if jlen >= 2 { 1 } else { 0 } });
    for _ in 0..sp + 3 {
        let (x, f) = pattern(pat, j);
        ops.push(Op::Feed { n: 0, x, f });
        j += 1;
    }
    Scenario { property: PROP.into(), stage: "sweep".into(), nodes: vec![spec], ops, workers: 0 }
}

/// sweep-mega (fixed corpus): O(1)-per-call kinds with windows around/beyond 2^16 slots: 1.5n ticks,
/// checkpoint, 5 journal ticks, crash + restore + replay, then n+3 ticks against the shadow
fn mega_scenario(idx: u64, periods: &[usize]) -> Scenario {
    let cheap: Vec<Kind> = ALL_KINDS.iter().cloned().filter(|k| gen::cheap_per_tick(*k) && k.n_periods() > 0).collect();
    let kind = cheap[(idx as usize) % cheap.len()];
    let p = periods[(idx as usize / cheap.len()) % periods.len()];
    let mode = if kind.has_scalar() { Mode::Scalar } else { Mode::Bar };
    let spec = NodeSpec { kind, params: Params::new(p, 3, 2, 2.0), mode, dflt: false };
    let n = p as u64;
    let g = world::StreamDesc { regime: [world::Regime::Walk, world::Regime::Saw, world::Regime::Few][(idx % 3) as usize], level: crate::sut::Fx(40.0), saw: 7, seed: idx, neg: false };
    let ops = vec![
        Op::Gen { n: 0, g, skip: 0, len: n + n / 2, fault: None, every: 0, reset_every: 0, clone_every: 0 },
        Op::Ckpt { n: 0, lost: false },
        Op::Gen { n: 0, g, skip: n + n / 2, len: 5, fault: None, every: 0, reset_every: 0, clone_every: 0 },
        Op::Crash { n: 0, recrash: 2 },
        Op::Gen { n: 0, g, skip: n + n / 2 + 5, len: n + 3, fault: None, every: 0, reset_every: 0, clone_every: 0 },
    ];
    Scenario { property: PROP.into(), stage: "sweep-mega".into(), nodes: vec![spec], ops, workers: 0 }
}

/// huge-periods (fixed corpus): the windowless EMA family with periods around 2^31 .. 2^62: the restored
/// node must report the same period()/Display and behave the same
fn huge_scenario(idx: u64, specs: &[NodeSpec]) -> Scenario {
    let spec = specs[idx as usize];
    let t = |j: usize| Op::Feed { n: 0, x: gen::plain_tick(j), f: Fault::Clean };
    let mut ops: Vec<Op> = (0..6).map(t).collect();
    ops.push(Op::Ckpt { n: 0, lost: false });
    ops.extend((6..8).map(t));
    ops.push(Op::Crash { n: 0, recrash: 1 });
    ops.extend((8..16).map(t));
    ops.push(Op::RoundTrip { n: 0, times: 2, json: idx % 2 == 0 });
    ops.push(Op::Format { n: 0 });
    ops.extend((16..20).map(t));
    Scenario { property: PROP.into(), stage: "huge-periods".into(), nodes: vec![spec], ops, workers: 0 }
}

pub fn run(tier: Tier) -> i32 {
    let c = report::ctx();
    let start = Instant::now();
    let mut total = Stats::default();
    let seeded_runs = match tier {
        Tier::Quick => 1_500_000u64,
        Tier::Thorough => 40_000_000u64,
    };
    let wall_cap = match tier {
        Tier::Quick => Duration::from_secs(120),
        Tier::Thorough => Duration::from_secs(1500),
    };
    let specs = sweep_specs();
    let seeded_runs = gen::scaled(seeded_runs);
    let sweep = run_stage("sweep", if gen::skip_fixed() { 1 } else { sweep_count(&specs) }, wall_cap, &mut total, &|i| sweep_scenario(i, &specs), &exec_guarded, &[777], 40);
    let mega_periods: &[usize] = match tier {
        Tier::Quick => &[65_535, 65_536, 65_537],
        Tier::Thorough => &gen::MEGA_PERIODS,
    };
    let n_mega = 13 * mega_periods.len() as u64;
    let mega = if sweep.found.is_none() && !gen::skip_fixed() { Some(run_stage("sweep-mega", n_mega, wall_cap, &mut total, &|i| mega_scenario(i, mega_periods), &exec_guarded, &[], 5)) } else { None };
    let hspecs = gen::huge_specs();
    let huge = if sweep.found.is_none() && mega.as_ref().map_or(true, |m| m.found.is_none()) && !gen::skip_fixed() { Some(run_stage("huge-periods", hspecs.len() as u64, wall_cap, &mut total, &|i| huge_scenario(i, &hspecs), &exec_guarded, &[], 5)) } else { None };
    let seeded = if sweep.found.is_none() && mega.as_ref().map_or(true, |m| m.found.is_none()) && huge.as_ref().map_or(true, |m| m.found.is_none()) {
        Some(run_stage("seeded", seeded_runs, wall_cap, &mut total, &|i| generate(&mut Rng::new(run_seed(c.seed, PROP, "seeded", i)), tier), &exec_guarded, &[0, 1], 30))
    } else {
        None
    };
    let mut stages = vec![&sweep];
    if let Some(s) = &mega {
        stages.push(s);
    }
    if let Some(s) = &huge {
        stages.push(s);
    }
    if let Some(s) = &seeded {
        stages.push(s);
    }
    let violations = conclude(&total, &stages);
    let wall = start.elapsed().as_secs_f64();
    let mut need: Vec<Fault> = ALL_FEED_FAULTS.iter().cloned().filter(|f| !matches!(f, Fault::Drop)).collect();
    need.extend([Fault::Crash, Fault::CrashDuringReplay, Fault::LostCheckpoint]);
    let dead: Vec<&str> = need.iter().map(|f| f.name()).filter(|n| total.faults.get(n).copied().unwrap_or(0) == 0).collect();
    report::write_evidence(
        &total,
        report::EvidenceMeta {
            level: "exploration",
            rule: "one evaluation = one scenario on a simulated node with a simulated disk (up to 3 checkpoint generations of bincode bytes + feed offset): fault-laden feed, resets, checkpoints (some writes lost), crashes that discard the in-memory instance and restore from the newest durable generation with journal replay (some crashing again mid-replay), chained serialize->deserialize round-trips (bincode, and serde_json where the state is representable in JSON), then a continuation of at least sum(periods)+2 ticks compared tick by tick with the never-serialized shadow. Sweep: periods 1..=4, checkpoint at every prefix 0..=16 of 3 fixed data patterns, journal lengths 0..=3, with/without reset right before the checkpoint. distinct_nontrivial counts distinct situations (indicator, period bucket, window phase at the checkpoint, restore kind and journal-length class, fault most recently delivered before the checkpoint, input mode, ticks-since-restore class {0,1,<n,=n,>n}) in which an output of a node that really went through the disk was compared; crashes with no durable generation restart from new() and are trivial.",
            assumptions: vec![
                "bincode 1.3 is the wire format for checkpoints; serde_json is exercised by round-trips only and only where it can represent the state (JSON cannot carry NaN/inf): a state whose JSON text contains `null` is skipped and counted; a null-free text must be readable by the instance that wrote it and the restored instance must preserve behaviour".into(),
                "torn/bit-flipped checkpoint bytes are deliberately not injected: the property promises nothing about corrupted input to deserialize".into(),
                "oracle = the same real code that never went through the disk".into(),
            ],
            wall_s: wall,
            violations,
            exhaustive: false,
            extra: json!({"sweep": {"specs": specs.len(), "stage": sweep.json()}, "sweep_mega": {"periods": mega_periods, "stage": mega.as_ref().map(|s| s.json())}, "seeded": seeded.as_ref().map(|s| s.json()), "dead_fault_kinds": dead}),
        },
    );
    println!("C06 {:?}: sweep {} runs, seeded {} runs, {} ticks, {} situations, {:.1}s, violations={}", tier, sweep.executed, seeded.as_ref().map_or(0, |s| s.executed), total.ticks, total.situations.len(), wall, violations);
    if violations > 0 {
        return 1;
    }
    if !dead.is_empty() && seeded.as_ref().map_or(false, |s| !s.truncated) {
        eprintln!("harness error: fault kinds never fired: {:?}", dead);
        return 2;
    }
    0
}
