use std::path::PathBuf;
use tasim::gen::Tier;
use tasim::report::{self, Ctx};
use tasim::scenario::ReplayFile;

#[global_allocator]
static GLOBAL: tasim::alloc::CountingAlloc = tasim::alloc::CountingAlloc;

fn usage() -> ! {
    eprintln!("usage: tasim <C04|C05|C06|C12|C17|C18> <quick|thorough> | tasim replay <file>");
    std::process::exit(2);
}

fn exec_by_prop(prop: &str, sc: &tasim::scenario::Scenario) -> Option<tasim::scenario::Violation> {
    match prop {
        "C04" => tasim::c04::exec_plain(sc),
        "C05" => tasim::c05::exec_plain(sc),
        "C06" => tasim::c06::exec_plain(sc),
        "C12" => tasim::c12::exec_plain(sc),
        "C17" => tasim::c17::exec_plain(sc),
        "C18" => tasim::c18::exec_plain(sc),
        p => {
            eprintln!("harness error: no executor for {}", p);
            std::process::exit(2)
        }
    }
}

/// the same harness built with `--profile shipped` (no debug assertions, wrapping integer arithmetic)
fn shipped_bin() -> PathBuf {
    if let Ok(p) = std::env::var("VERIF_SHIPPED_BIN") {
        return PathBuf::from(p);
    }
    let exe = std::env::current_exe().unwrap_or_default();
    let p = exe.parent().and_then(|d| d.parent()).map(|t| t.join("shipped").join("tasim")).unwrap_or_default();
    if !p.exists() {
        eprintln!("harness error: {} is missing (build it with `cargo build --profile shipped --offline` in /verif/sim; /verif/check does)", p.display());
        std::process::exit(2);
    }
    p
}

/// Reduced pass of the same check in the build configuration users ship. Code that exists only under
/// `debug_assert!` / `cfg(debug_assertions)` / overflow checks differs between the two builds, and the property
/// must hold in both. Fixed corpora in full, a quarter of the seeded runs, no sub-process stages.
fn shipped_pass(prop: &str, tier: &str) -> Result<serde_json::Value, i32> {
    use serde_json::json;
    if report::profile() == "shipped" || std::env::var("VERIF_NO_SHIPPED").is_ok() {
        return Ok(json!({"status": "skipped"}));
    }
    // a quarter of the seeded runs; the self-tests that already scale the run counts down to a handful keep theirs
    let parent = std::env::var("VERIF_SCALE").ok().and_then(|s| s.parse::<f64>().ok()).unwrap_or(1.0);
    let scale = if parent < 1.0 { parent } else { parent * 0.25 };
    let t0 = std::time::Instant::now();
    let out = std::process::Command::new(shipped_bin())
        .args([prop, tier])
        .env("VERIF_SHIPPED", "1")
        .env("VERIF_NO_SHIPPED", "1")
        .env("VERIF_FAST", "1")
        .env("VERIF_SCALE", format!("{}", scale))
        .stderr(std::process::Stdio::inherit())
        .output()
        .map_err(|e| {
            eprintln!("harness error: cannot start the shipped-configuration pass: {}", e);
            2
        })?;
    let text = String::from_utf8_lossy(&out.stdout);
    let (mut digest, mut summary) = (String::new(), String::new());
    for l in text.lines() {
        if l.starts_with("VIOLATION ") || l.starts_with("KNOWN-FINDING") {
            println!("{}", l);
        } else if let Some(r) = l.strip_prefix("DIGEST ") {
            digest = r.to_string();
            println!("DIGEST-SHIPPED {}", r);
        } else {
            if l.contains(" Quick: ") || l.contains(" Thorough: ") {
                summary = l.to_string();
            }
            println!("[shipped] {}", l);
        }
    }
    match out.status.code() {
        Some(0) => Ok(json!({"status": "held", "build": "profile shipped: opt-level 2, debug-assertions off, overflow-checks off", "scale_of_seeded_runs": scale,
            "sub_process_stages": "skipped", "summary": summary, "digest": digest, "wall_s": t0.elapsed().as_secs_f64()})),
        Some(1) => Err(1),
        _ => {
            eprintln!("harness error: the shipped-configuration pass ended with {:?}", out.status);
            Err(2)
        }
    }
}

fn main() {
    let args: Vec<String> = std::env::args().collect();
    if args.len() < 3 {
        usage();
    }
    tasim::runner::install_panic_hook();
    let seed = std::env::var("VERIF_SEED").ok().and_then(|s| s.trim().parse::<u64>().ok()).unwrap_or(1);
    let jobs = std::env::var("VERIF_JOBS").ok().and_then(|s| s.parse::<usize>().ok()).unwrap_or_else(|| std::thread::available_parallelism().map(|n| n.get()).unwrap_or(4).min(16));
    let verif = PathBuf::from(std::env::var("VERIF_DIR").unwrap_or_else(|_| "/verif".into()));
    let dry = std::env::var("VERIF_DRY").is_ok();
    if args[1] == "exec-stdin" {
        // hermetic single-scenario execution for a parent process (C05 confirmation/minimisation)
        let mut text = String::new();
        use std::io::Read;
        std::io::stdin().read_to_string(&mut text).ok();
        let sc: tasim::scenario::Scenario = serde_json::from_str(&text).unwrap_or_else(|e| {
            eprintln!("harness error: bad scenario on stdin: {}", e);
            std::process::exit(2)
        });
        let _ = report::CTX.set(Ctx { prop: args[2].clone(), tier: "quick".into(), seed, jobs: 1, verif: verif.clone(), known: vec![], dry: true });
        let v = exec_by_prop(&args[2], &sc);
        println!("RESULT {}", serde_json::to_string(&v).unwrap());
        std::process::exit(0);
    }
    if args[1] == "replay" {
        let text = std::fs::read_to_string(&args[2]).unwrap_or_else(|e| {
            eprintln!("harness error: cannot read {}: {}", args[2], e);
            std::process::exit(2)
        });
        let rf: ReplayFile = serde_json::from_str(&text).unwrap_or_else(|e| {
            eprintln!("harness error: cannot parse {}: {}", args[2], e);
            std::process::exit(2)
        });
        if rf.profile == "shipped" && report::profile() != "shipped" {
            // found by the pass in the shipped build configuration: re-execute under that build
            let code = std::process::Command::new(shipped_bin()).args(["replay", &args[2]]).status().map(|s| s.code().unwrap_or(2)).unwrap_or(2);
            std::process::exit(code);
        }
        let _ = report::CTX.set(Ctx { prop: rf.property.clone(), tier: "quick".into(), seed: rf.seed, jobs, verif: verif.clone(), known: vec![], dry: true });
        // a recorded hang is replayed under a watchdog
        if rf.class.ends_with("/hang") {
            let (prop, sc) = (rf.property.clone(), rf.scenario.clone());
            let (tx, rx) = std::sync::mpsc::channel();
            std::thread::spawn(move || {
                let _ = tx.send(exec_by_prop(&prop, &sc));
            });
            match rx.recv_timeout(std::time::Duration::from_secs(30)) {
                Ok(None) => {
                    println!("replay of {} returned normally (no hang, no violation)", args[2]);
                    std::process::exit(0);
                }
                Ok(Some(v)) => {
                    println!("reproduced class={} detail={}", v.class, v.detail);
                    println!("VIOLATION property={} replay={}", v.property, args[2]);
                    std::process::exit(1);
                }
                Err(_) => {
                    println!("reproduced class={} : the scenario still does not finish within 30 s", rf.class);
                    println!("VIOLATION property={} replay={}", rf.property, args[2]);
                    std::process::exit(1);
                }
            }
        }
        // C05 looks for hidden process state: replay through the same fresh-child path that confirmed it
        let v = if rf.property == "C05" {
            let mut r = None;
            for _ in 0..20 {
                r = tasim::driver::hermetic_exec("C05", &rf.scenario).unwrap_or(None);
                if r.is_some() {
                    break;
                }
            }
            r
        } else {
            exec_by_prop(&rf.property, &rf.scenario)
        };
        match v {
            Some(v) => {
                println!("reproduced class={} step={} detail={}", v.class, v.step, v.detail);
                println!("  expected={:?}", v.expected);
                println!("  got     ={:?}", v.got);
                if v.class != rf.class {
                    println!("note: class differs from the recorded one ({})", rf.class);
                }
                println!("VIOLATION property={} replay={}", v.property, args[2]);
                std::process::exit(1);
            }
            None => {
                println!("replay of {} did not reproduce a violation (property holds on this scenario)", args[2]);
                std::process::exit(0);
            }
        }
    }
    let tier = match args[2].as_str() {
        "quick" => Tier::Quick,
        "thorough" => Tier::Thorough,
        _ => usage(),
    };
    let known = report::load_known(&verif);
    let _ = report::CTX.set(Ctx { prop: args[1].clone(), tier: args[2].clone(), seed, jobs, verif, known, dry });
    println!("tasim property={} tier={} VERIF_SEED={} jobs={}", args[1], args[2], seed, jobs);
    if args[1] != "C05-child" {
        match shipped_pass(&args[1], &args[2]) {
            Ok(j) => {
                let _ = report::SHIPPED.set(j);
            }
            Err(code) => std::process::exit(code),
        }
    }
    let code = match args[1].as_str() {
        "C04" => tasim::c04::run(tier),
        "C05" => tasim::c05::run(tier),
        "C05-child" => tasim::c05::child(tier),
        "C06" => tasim::c06::run(tier),
        "C12" => tasim::c12::run(tier),
        "C17" => tasim::c17::run(tier),
        "C18" => tasim::c18::run(tier),
        _ => usage(),
    };
    std::process::exit(code);
}
