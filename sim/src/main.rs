fn main(){}
