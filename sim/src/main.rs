use std::path::PathBuf;
use tasim::gen::Tier;
use tasim::report::{self, Ctx};
use tasim::scenario::ReplayFile;

#[global_allocator]
static GLOBAL: tasim::alloc::CountingAlloc = tasim::alloc::CountingAlloc;

fn usage() -> ! {
    eprintln!("usage: tasim <C04|C05|C06|C12|C17|C18> <quick|thorough> | tasim replay <file>");
    std::process::exit(2);
}

fn exec_by_prop(prop: &str, sc: &tasim::scenario::Scenario) -> Option<tasim::scenario::Violation> {
    match prop {
        "C04" => tasim::c04::exec_plain(sc),
        "C05" => tasim::c05::exec_plain(sc),
        "C06" => tasim::c06::exec_plain(sc),
        "C12" => tasim::c12::exec_plain(sc),
        "C17" => tasim::c17::exec_plain(sc),
        "C18" => tasim::c18::exec_plain(sc),
        p => {
            eprintln!("harness error: no executor for {}", p);
            std::process::exit(2)
        }
    }
}

fn main() {
    let args: Vec<String> = std::env::args().collect();
    if args.len() < 3 {
        usage();
    }
    tasim::runner::install_panic_hook();
    let seed = std::env::var("VERIF_SEED").ok().and_then(|s| s.trim().parse::<u64>().ok()).unwrap_or(1);
    let jobs = std::env::var("VERIF_JOBS").ok().and_then(|s| s.parse::<usize>().ok()).unwrap_or_else(|| std::thread::available_parallelism().map(|n| n.get()).unwrap_or(4).min(16));
    let verif = PathBuf::from(std::env::var("VERIF_DIR").unwrap_or_else(|_| "/verif".into()));
    let dry = std::env::var("VERIF_DRY").is_ok();
    if args[1] == "exec-stdin" {
        // hermetic single-scenario execution for a parent process (C05 confirmation/minimisation)
        let mut text = String::new();
        use std::io::Read;
        std::io::stdin().read_to_string(&mut text).ok();
        let sc: tasim::scenario::Scenario = serde_json::from_str(&text).unwrap_or_else(|e| {
            eprintln!("harness error: bad scenario on stdin: {}", e);
            std::process::exit(2)
        });
        let _ = report::CTX.set(Ctx { prop: args[2].clone(), tier: "quick".into(), seed, jobs: 1, verif: verif.clone(), known: vec![], dry: true });
        let v = exec_by_prop(&args[2], &sc);
        println!("RESULT {}", serde_json::to_string(&v).unwrap());
        std::process::exit(0);
    }
    if args[1] == "replay" {
        let text = std::fs::read_to_string(&args[2]).unwrap_or_else(|e| {
            eprintln!("harness error: cannot read {}: {}", args[2], e);
            std::process::exit(2)
        });
        let rf: ReplayFile = serde_json::from_str(&text).unwrap_or_else(|e| {
            eprintln!("harness error: cannot parse {}: {}", args[2], e);
            std::process::exit(2)
        });
        let _ = report::CTX.set(Ctx { prop: rf.property.clone(), tier: "quick".into(), seed: rf.seed, jobs, verif: verif.clone(), known: vec![], dry: true });
        // a recorded hang is replayed under a watchdog
        if rf.class.ends_with("/hang") {
            let (prop, sc) = (rf.property.clone(), rf.scenario.clone());
            let (tx, rx) = std::sync::mpsc::channel();
            std::thread::spawn(move || {
                let _ = tx.send(exec_by_prop(&prop, &sc));
            });
            match rx.recv_timeout(std::time::Duration::from_secs(30)) {
                Ok(None) => {
                    println!("replay of {} returned normally (no hang, no violation)", args[2]);
                    std::process::exit(0);
                }
                Ok(Some(v)) => {
                    println!("reproduced class={} detail={}", v.class, v.detail);
                    println!("VIOLATION property={} replay={}", v.property, args[2]);
                    std::process::exit(1);
                }
                Err(_) => {
                    println!("reproduced class={} : the scenario still does not finish within 30 s", rf.class);
                    println!("VIOLATION property={} replay={}", rf.property, args[2]);
                    std::process::exit(1);
                }
            }
        }
        // C05 looks for hidden process state: replay through the same fresh-child path that confirmed it
        let v = if rf.property == "C05" {
            let mut r = None;
            for _ in 0..20 {
                r = tasim::driver::hermetic_exec("C05", &rf.scenario).unwrap_or(None);
                if r.is_some() {
                    break;
                }
            }
            r
        } else {
            exec_by_prop(&rf.property, &rf.scenario)
        };
        match v {
            Some(v) => {
                println!("reproduced class={} step={} detail={}", v.class, v.step, v.detail);
                println!("  expected={:?}", v.expected);
                println!("  got     ={:?}", v.got);
                if v.class != rf.class {
                    println!("note: class differs from the recorded one ({})", rf.class);
                }
                println!("VIOLATION property={} replay={}", v.property, args[2]);
                std::process::exit(1);
            }
            None => {
                println!("replay of {} did not reproduce a violation (property holds on this scenario)", args[2]);
                std::process::exit(0);
            }
        }
    }
    let tier = match args[2].as_str() {
        "quick" => Tier::Quick,
        "thorough" => Tier::Thorough,
        _ => usage(),
    };
    let known = report::load_known(&verif);
    let _ = report::CTX.set(Ctx { prop: args[1].clone(), tier: args[2].clone(), seed, jobs, verif, known, dry });
    println!("tasim property={} tier={} VERIF_SEED={} jobs={}", args[1], args[2], seed, jobs);
    let code = match args[1].as_str() {
        "C04" => tasim::c04::run(tier),
        "C05" => tasim::c05::run(tier),
        "C05-child" => tasim::c05::child(tier),
        "C06" => tasim::c06::run(tier),
        "C12" => tasim::c12::run(tier),
        "C17" => tasim::c17::run(tier),
        "C18" => tasim::c18::run(tier),
        _ => usage(),
    };
    std::process::exit(code);
}
