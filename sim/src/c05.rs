//! C05 — clones and separate instances are independent and deterministic.
//! Stage A: seeded op-level interleavings over many live instances/clones on one thread.
//! Stage B: the same kind of scenario on 2..16 real OS threads, released one op at a time by a
//!          turn token (which thread runs is the PRNG's decision), with migration between threads.
//! Stage C: Miri's seeded pre-emptive scheduler (separate crate /verif/sim-miri).
//! Stage D: two separately started processes must produce identical output digests.
//! Oracle everywhere: solo replay — a fresh instance fed the node's own op log with no other
//! instance alive must reproduce every recorded output bit for bit.

use crate::driver::{conclude, hermetic_exec, run_stage_opt, StageOut};
use crate::gen::{self, Tier};
use crate::report;
use crate::rng::{fnv, fnv_u64, run_seed, Rng};
use crate::runner::{guarded, on, PanicVerdict, Side};
use crate::scenario::{Op, Scenario, Violation};
use crate::stats::{phase, Stats};
use crate::sut::{build_spec, Input, Kind, Mode, NodeSpec, Out, Params, Sut, ALL_KINDS};
use crate::world::{self, Fault, FaultPlan, World, ALL_FEED_FAULTS};
use serde_json::json;
use std::sync::atomic::{AtomicUsize, Ordering};
use std::sync::{Arc, Mutex};
use std::time::{Duration, Instant};

pub const PROP: &str = "C05";

#[derive(Clone)]
enum L {
    Feed(usize, Input, Out),
    Reset,
    Fmt(usize, String),
}

struct Node {
    sut: Box<dyn Sut>,
    spec: NodeSpec,
    log: Vec<L>,
    forked_at: Option<usize>,
    count: u64,
    was_reset: bool,
}

/// what the post-hoc oracle needs of a node: its spec and its complete op log
struct Rec {
    spec: NodeSpec,
    log: Vec<L>,
    forked_at: Option<usize>,
}

impl Node {
    fn into_rec(self) -> Rec {
        Rec { spec: self.spec, log: self.log, forked_at: self.forked_at }
    }
    /// `self.clone_from(src)`: self becomes a copy of src (history and all); returns the record of its previous life
    fn overwrite_from(&mut self, src: &Node) -> Option<Rec> {
        if self.spec.kind != src.spec.kind {
            return None;
        }
        let ok = on(Side::Subject, || self.sut.clone_from_sut(src.sut.as_ref()));
        if !ok {
            return None;
        }
        let old = Rec { spec: self.spec, log: std::mem::take(&mut self.log), forked_at: self.forked_at };
        // the copy is the source in every respect, including the input mode its log was recorded in
        self.spec = src.spec;
        self.log = src.log.clone();
        self.forked_at = Some(src.log.len());
        self.count = src.count;
        self.was_reset = src.was_reset;
        Some(old)
    }
}

fn viol(class: &str, kind: Kind, step: usize, detail: String, expected: Vec<String>, got: Vec<String>) -> Violation {
    Violation {
        property: PROP.into(),
        class: format!("C05/{}/{}", class, kind.name()),
        step,
        detail,
        expected,
        got,
        oracle: "solo replay: a fresh instance fed this node's own op log (parent's log up to the fork, then its own) with no other instance alive; bit-exact".into(),
    }
}

/// apply one op to a node, recording what was observed
fn apply(node: &mut Node, i: usize, op: &Op) {
    match op {
        Op::Feed { x, .. } => {
            let (o, _) = on(Side::Subject, || node.sut.feed(node.spec.mode, x));
            node.log.push(L::Feed(i, *x, o));
            node.count += 1;
        }
        Op::Gen { g, skip, len, fault, every, .. } => {
            // a long uptime: only the last 64 outputs are logged (the replay regenerates the stream)
            let total = *len;
            let mut j = 0u64;
            world::expand_gen(g, *skip, *len, *fault, *every, 0, |x, _f, _| {
                let (o, _) = on(Side::Subject, || node.sut.feed(node.spec.mode, x));
                node.log.push(L::Feed(i, *x, o));
                node.count += 1;
                j += 1;
                let _ = total;
                true
            });
        }
        Op::Reset { .. } => {
            on(Side::Subject, || node.sut.reset());
            node.log.push(L::Reset);
            node.count = 0;
            node.was_reset = true;
        }
        Op::Format { .. } => {
            let d = on(Side::Subject, || {
                let _ = node.sut.debug();
                node.sut.display()
            });
            node.log.push(L::Fmt(i, d));
        }
        _ => {}
    }
}

/// Solo replay of one node's log on the calling thread. Returns the first mismatch.
fn solo_replay(id: usize, node: &Rec, pass: u32) -> Option<Violation> {
    let kind = node.spec.kind;
    let mut fresh = on(Side::Reference, || crate::sut::build_ref(&node.spec));
    let mut seen = 0usize;
    for e in &node.log {
        match e {
            L::Feed(i, x, rec) => {
                let (o, _) = on(Side::Reference, || fresh.feed(node.spec.mode, x));
                if !o.same_bits(rec) {
                    let after_fork = node.forked_at.map_or(false, |f| seen >= f);
                    let class = if node.forked_at.is_some() && after_fork { "clone-diverged" } else { "interference" };
                    return Some(viol(
                        class,
                        kind,
                        *i,
                        format!("node {} ({}): output of its feed #{} in the interleaved run differs from the solo replay (pass {}){}", id, kind.name(), seen + 1, pass, if node.forked_at.is_some() { format!("; node is a clone taken after {} log entries", node.forked_at.unwrap()) } else { String::new() }),
                        o.hex(),
                        rec.hex(),
                    ));
                }
            }
            L::Reset => on(Side::Reference, || fresh.reset()),
            L::Fmt(i, d) => {
                let e = on(Side::Reference, || fresh.display());
                if &e != d {
                    return Some(viol("interference", kind, *i, format!("node {}: Display differs from the solo replay", id), vec![e], vec![d.clone()]));
                }
            }
        }
        seen += 1;
    }
    None
}

fn note(st: &mut Stats, node: &Node, op: &Op, live: usize, last_fault: Fault) {
    let opk = op.kind_code() | ((live.min(4) as u64) << 8) | if node.forked_at.is_some() { 1 << 12 } else { 0 };
    st.situation(node.spec.kind, &node.spec.params, phase(node.count, node.spec.params.window(node.spec.kind), node.was_reset), opk, last_fault, node.spec.mode, 0);
}

/// nodes whose first op is `Create` are not built at the start
fn late_nodes(sc: &Scenario) -> Vec<bool> {
    let mut seen = vec![false; sc.nodes.len()];
    let mut late = vec![false; sc.nodes.len()];
    for op in &sc.ops {
        let n = op.node();
        if n < seen.len() && !seen[n] {
            seen[n] = true;
            late[n] = matches!(op, Op::Create { .. });
        }
        if let Op::Fork { dst, .. } = op {
            if *dst < seen.len() {
                seen[*dst] = true;
            }
        }
    }
    late
}

fn new_node(s: &NodeSpec) -> Node {
    Node { sut: on(Side::Subject, || build_spec(s)), spec: *s, log: vec![], forked_at: None, count: 0, was_reset: false }
}

/// Stage A executor: one thread, the op list is the schedule.
fn exec_single(sc: &Scenario, st: &mut Stats) -> Option<Violation> {
    let late = late_nodes(sc);
    let mut nodes: Vec<Option<Node>> = sc.nodes.iter().enumerate().map(|(i, s)| if late[i] { None } else { Some(new_node(s)) }).collect();
    let mut finished: Vec<(usize, Rec)> = vec![];
    let mut last_fault = Fault::Clean;
    for (i, op) in sc.ops.iter().enumerate() {
        st.op(op);
        match op {
            Op::Fork { src, dst, into: true } if src != dst && matches!(nodes.get(*src), Some(Some(_))) && matches!(nodes.get(*dst), Some(Some(_))) => {
                // clone_from into a live instance of the same type
                let mut d = nodes[*dst].take().unwrap();
                let s = nodes[*src].as_ref().unwrap();
                match d.overwrite_from(s) {
                    Some(old) => {
                        finished.push((*dst, old));
                        st.bump("clone_from_into_live_instance");
                    }
                    None => st.bump("clone_from_skipped_different_type"),
                }
                nodes[*dst] = Some(d);
            }
            Op::Fork { src, dst, .. } => {
                if let Some(Some(s)) = nodes.get(*src) {
                    let c = Node { sut: on(Side::Subject, || s.sut.fork()), spec: s.spec, log: s.log.clone(), forked_at: Some(s.log.len()), count: s.count, was_reset: s.was_reset };
                    while nodes.len() <= *dst {
                        nodes.push(None);
                    }
                    if let Some(old) = nodes[*dst].take() {
                        finished.push((*dst, old.into_rec()));
                    }
                    nodes[*dst] = Some(c);
                }
            }
            Op::Create { n } => {
                if let Some(spec) = sc.nodes.get(*n) {
                    if let Some(old) = nodes[*n].take() {
                        finished.push((*n, old.into_rec()));
                    }
                    nodes[*n] = Some(new_node(spec));
                    st.bump("instances_created_in_mid_schedule");
                }
            }
            Op::Drop { n } => {
                if let Some(slot) = nodes.get_mut(*n) {
                    if let Some(old) = slot.take() {
                        finished.push((*n, old.into_rec()));
                    }
                }
            }
            _ => {
                let live = nodes.iter().filter(|n| n.is_some()).count();
                if let Some(Some(node)) = nodes.get_mut(op.node()) {
                    if let Op::Feed { f, .. } = op {
                        st.ticks += 1;
                        st.fault(*f);
                        if *f != Fault::Clean {
                            last_fault = *f;
                        }
                    }
                    note(st, node, op, live, last_fault);
                    apply(node, i, op);
                }
            }
        }
    }
    for (id, n) in nodes.into_iter().enumerate() {
        if let Some(n) = n {
            finished.push((id, n.into_rec()));
        }
    }
    verify(finished, st)
}

/// post-hoc check over the recorded history: solo replay of every node, twice
fn verify(finished: Vec<(usize, Rec)>, st: &mut Stats) -> Option<Violation> {
    let mut digest = 0u64;
    let mut worst: Option<Violation> = None;
    let multi = finished.len() > 1;
    for (id, n) in &finished {
        for e in &n.log {
            if let L::Feed(_, _, o) = e {
                for b in o.bits() {
                    digest = fnv_u64(digest, b);
                }
            }
        }
        for pass in 1..=2 {
            st.comparisons += n.log.len() as u64;
            if let Some(v) = solo_replay(*id, n, pass) {
                if worst.as_ref().map_or(true, |w| v.step < w.step) {
                    worst = Some(v);
                }
                break;
            }
        }
    }
    st.digest = st.digest.wrapping_add(fnv_u64(digest, finished.len() as u64));
    if multi {
        st.nontrivial_runs += 1;
    }
    worst
}

// ---------------------------------------------------------------------------------------------
// Stage B: real OS threads, one op at a time

enum Cmd {
    Exec(usize, Op),
    Take(usize),
    Put(usize, Node),
    Create(usize, NodeSpec),
    Fork(usize, usize, bool),
    Finish,
}
enum Reply {
    None,
    Node(Option<Node>),
    Done(Vec<(usize, Rec)>),
    Rec(Option<Rec>),
    Info(Option<(NodeSpec, u64, bool, bool)>),
}

struct Mailbox {
    cmd: Option<Cmd>,
    reply: Option<Reply>,
}

const SCHED: usize = usize::MAX;

fn wait_for(token: &AtomicUsize, me: usize) {
    let mut spins = 0u32;
    while token.load(Ordering::Acquire) != me {
        spins += 1;
        if spins < 200 {
            std::hint::spin_loop();
        } else {
            std::thread::yield_now();
        }
    }
}

fn exec_threads(sc: &Scenario, st: &mut Stats) -> Option<Violation> {
    let k = sc.workers.clamp(2, 16);
    let token = Arc::new(AtomicUsize::new(SCHED));
    let mbox = Arc::new(Mutex::new(Mailbox { cmd: None, reply: None }));
    let panicked = Arc::new(Mutex::new(None::<String>));
    let mut handles = vec![];
    for w in 0..k {
        let (token, mbox, panicked) = (token.clone(), mbox.clone(), panicked.clone());
        handles.push(std::thread::spawn(move || {
            let mut mine: Vec<(usize, Node)> = vec![];
            loop {
                wait_for(&token, w);
                let cmd = mbox.lock().unwrap().cmd.take();
                let r = guarded(|| match cmd {
                    Some(Cmd::Exec(i, op)) => {
                        let info = mine.iter_mut().find(|(id, _)| *id == op.node()).map(|(_, n)| {
                            let info = (n.spec, n.count, n.was_reset, n.forked_at.is_some());
                            apply(n, i, &op);
                            info
                        });
                        (Reply::Info(info), false)
                    }
                    Some(Cmd::Take(id)) => {
                        let pos = mine.iter().position(|(i, _)| *i == id);
                        (Reply::Node(pos.map(|p| mine.remove(p).1)), false)
                    }
                    Some(Cmd::Put(id, n)) => {
                        mine.push((id, n));
                        (Reply::None, false)
                    }
                    Some(Cmd::Create(id, spec)) => {
                        // new() runs on this worker thread
                        mine.push((id, new_node(&spec)));
                        (Reply::None, false)
                    }
                    Some(Cmd::Fork(src, dst, true)) if src != dst && mine.iter().any(|(i, _)| *i == src) && mine.iter().any(|(i, _)| *i == dst) => {
                        let dp = mine.iter().position(|(i, _)| *i == dst).unwrap();
                        let (_, mut d) = mine.remove(dp);
                        let s = &mine.iter().find(|(i, _)| *i == src).unwrap().1;
                        let old = d.overwrite_from(s);
                        mine.push((dst, d));
                        (Reply::Rec(old), false)
                    }
                    Some(Cmd::Fork(src, dst, _)) => {
                        let c = mine.iter().find(|(i, _)| *i == src).map(|(_, s)| Node { sut: on(Side::Subject, || s.sut.fork()), spec: s.spec, log: s.log.clone(), forked_at: Some(s.log.len()), count: s.count, was_reset: s.was_reset });
                        let had = c.is_some();
                        if let Some(c) = c {
                            mine.push((dst, c));
                        }
                        (Reply::Info(if had { Some((mine.last().unwrap().1.spec, 0, false, true)) } else { None }), false)
                    }
                    Some(Cmd::Finish) | None => (Reply::Done(std::mem::take(&mut mine).into_iter().map(|(i, n)| (i, n.into_rec())).collect()), true),
                });
                let (reply, quit) = match r {
                    Ok(x) => x,
                    Err(PanicVerdict::Subject(m)) | Err(PanicVerdict::Reference(m)) | Err(PanicVerdict::Harness(m)) => {
                        *panicked.lock().unwrap() = Some(m);
                        (Reply::None, false)
                    }
                };
                mbox.lock().unwrap().reply = Some(reply);
                token.store(SCHED, Ordering::Release);
                if quit {
                    break;
                }
            }
        }));
    }
    let call = |w: usize, cmd: Cmd| -> Reply {
        mbox.lock().unwrap().cmd = Some(cmd);
        token.store(w, Ordering::Release);
        wait_for(&token, SCHED);
        mbox.lock().unwrap().reply.take().unwrap_or(Reply::None)
    };
    // initial placement: node i on worker i mod k
    let mut owner: Vec<Option<usize>> = vec![];
    let late = late_nodes(sc);
    for (i, s) in sc.nodes.iter().enumerate() {
        if late[i] {
            owner.push(None);
            continue;
        }
        let w = i % k;
        call(w, Cmd::Create(i, *s));
        owner.push(Some(w));
    }
    let mut finished: Vec<(usize, Rec)> = vec![];
    let mut last_fault = Fault::Clean;
    for (i, op) in sc.ops.iter().enumerate() {
        st.op(op);
        match op {
            Op::Fork { src, dst, into: true } if src != dst && matches!(owner.get(*src), Some(Some(_))) && matches!(owner.get(*dst), Some(Some(_))) => {
                // bring the destination to the source's thread, then clone_from there
                let (ws, wd) = (owner[*src].unwrap(), owner[*dst].unwrap());
                if ws != wd {
                    if let Reply::Node(Some(node)) = call(wd, Cmd::Take(*dst)) {
                        st.fault(Fault::Migrate);
                        call(ws, Cmd::Put(*dst, node));
                        owner[*dst] = Some(ws);
                    }
                }
                if let Reply::Rec(Some(old)) = call(ws, Cmd::Fork(*src, *dst, true)) {
                    finished.push((*dst, old));
                    st.bump("clone_from_into_live_instance");
                }
            }
            Op::Fork { src, dst, .. } => {
                if let Some(Some(w)) = owner.get(*src).cloned() {
                    while owner.len() <= *dst {
                        owner.push(None);
                    }
                    if let Some(ow) = owner[*dst] {
                        if let Reply::Node(Some(old)) = call(ow, Cmd::Take(*dst)) {
                            finished.push((*dst, old.into_rec()));
                        }
                    }
                    call(w, Cmd::Fork(*src, *dst, false));
                    owner[*dst] = Some(w);
                }
            }
            Op::Drop { n } => {
                if let Some(Some(w)) = owner.get(*n).cloned() {
                    if let Reply::Node(Some(old)) = call(w, Cmd::Take(*n)) {
                        finished.push((*n, old.into_rec()));
                    }
                    owner[*n] = None;
                }
            }
            Op::Create { n } => {
                if let Some(spec) = sc.nodes.get(*n) {
                    if let Some(Some(w)) = owner.get(*n).cloned() {
                        if let Reply::Node(Some(old)) = call(w, Cmd::Take(*n)) {
                            finished.push((*n, old.into_rec()));
                        }
                    }
                    let w = (*n + i) % k;
                    call(w, Cmd::Create(*n, *spec));
                    owner[*n] = Some(w);
                    st.bump("instances_created_in_mid_schedule");
                }
            }
            Op::Migrate { n, w } => {
                let to = *w % k;
                if let Some(Some(from)) = owner.get(*n).cloned() {
                    if from != to {
                        if let Reply::Node(Some(node)) = call(from, Cmd::Take(*n)) {
                            st.fault(Fault::Migrate);
                            call(to, Cmd::Put(*n, node));
                            owner[*n] = Some(to);
                        }
                    }
                }
            }
            _ => {
                if let Some(Some(w)) = owner.get(op.node()).cloned() {
                    if let Op::Feed { f, .. } = op {
                        st.ticks += 1;
                        st.fault(*f);
                        if *f != Fault::Clean {
                            last_fault = *f;
                        }
                    }
                    if let Reply::Info(Some((spec, count, was_reset, is_fork))) = call(w, Cmd::Exec(i, op.clone())) {
                        let live = owner.iter().filter(|o| o.is_some()).count();
                        let opk = op.kind_code() | ((live.min(4) as u64) << 8) | if is_fork { 1 << 12 } else { 0 } | (1 << 13) | ((k.min(16) as u64) << 16);
                        st.situation(spec.kind, &spec.params, phase(count, spec.params.window(spec.kind), was_reset), opk, last_fault, spec.mode, 0);
                    }
                }
            }
        }
        if panicked.lock().unwrap().is_some() {
            break;
        }
    }
    for w in 0..k {
        if let Reply::Done(v) = call(w, Cmd::Finish) {
            finished.extend(v);
        }
    }
    for h in handles {
        let _ = h.join();
    }
    if let Some(m) = panicked.lock().unwrap().take() {
        st.bump("sut_panicked_run_skipped");
        let _ = m;
        return None;
    }
    finished.sort_by_key(|(id, _)| *id);
    // solo replay on yet another, freshly spawned thread
    let (v, sub) = std::thread::spawn(move || {
        let mut sub = Stats::default();
        let v = guarded(|| verify(finished, &mut sub));
        (v.unwrap_or(None), sub)
    })
    .join()
    .unwrap_or((None, Stats::default()));
    st.comparisons += sub.comparisons;
    st.digest = st.digest.wrapping_add(sub.digest);
    st.nontrivial_runs += sub.nontrivial_runs;
    v
}

pub fn exec(sc: &Scenario, st: &mut Stats) -> Option<Violation> {
    if sc.workers >= 2 {
        return exec_threads(sc, st);
    }
    match guarded(|| exec_single(sc, st)) {
        Ok(v) => v,
        Err(PanicVerdict::Subject(_)) | Err(PanicVerdict::Reference(_)) => {
            st.bump("sut_panicked_run_skipped");
            None
        }
        Err(PanicVerdict::Harness(m)) => {
            eprintln!("harness error: {}", m);
            std::process::exit(2);
        }
    }
}

pub fn exec_plain(sc: &Scenario) -> Option<Violation> {
    exec(sc, &mut Stats::default())
}

// ---------------------------------------------------------------------------------------------
// generators

pub fn generate(rng: &mut Rng, tier: Tier, workers: usize) -> Scenario {
    let k0 = rng.range(2, 6);
    let mut nodes: Vec<NodeSpec> = vec![];
    // several nodes of the SAME kind and parameters on purpose: a hidden cache would most plausibly
    // be keyed by type or period
    let base = gen::random_spec(rng, tier, None);
    for i in 0..k0 {
        if i == 0 || rng.chance(0.5) {
            let mut s = base;
            if rng.chance(0.3) {
                s.mode = gen::random_mode(rng, s.kind);
            }
            nodes.push(s);
        } else if rng.chance(0.5) {
            let mut s = gen::random_spec(rng, tier, None);
            s.kind = base.kind;
            s.dflt = false; // the parameters were drawn for another kind: build through new()
            s.mode = gen::random_mode(rng, s.kind);
            nodes.push(s);
        } else {
            nodes.push(gen::random_spec(rng, tier, None));
        }
    }
    let mut n_ops = match rng.below(4) {
        0 => rng.range(4, 20),
        1 => rng.range(20, 80),
        _ => rng.range(40, 600usize.min(60 + 6 * base.params.sum_periods(base.kind))),
    };
    // "deep" runs: few instances with a large window, fed long enough to wrap it (state that is only
    // consulted once the ring is full, e.g. a slot that was never written, shows only there)
    let mut deep = false;
    if rng.chance(0.02) && workers == 0 {
        deep = true;
        let p = rng.log_range(100, 1500);
        for s in nodes.iter_mut() {
            if s.kind == base.kind && !s.dflt {
                s.params.p1 = p;
            }
        }
        nodes.truncate(3);
        n_ops = (2 * nodes.len() * (p + 2) + rng.range(0, 200)).min(9000);
    }
    // each node has its own stream; some pairs deliberately share one
    let mut worlds: Vec<World> = vec![];
    let shared = World::random(rng);
    for _ in 0..8 {
        worlds.push(if rng.chance(0.3) { shared.clone() } else { World::random(rng) });
    }
    let plan = if rng.chance(0.2) { FaultPlan::none() } else { FaultPlan::swarm(rng, &ALL_FEED_FAULTS, 0.005, 0.3) };
    let mut ops = vec![];
    // rarely: one instance has a very long life before the others are created / cloned from it
    if rng.chance(0.001) && base.params.sum_periods(base.kind) <= 64 {
        let fault = if rng.chance(0.4) { Some(*rng.pick(&world::VALUE_FAULTS)) } else { None };
        ops.push(Op::Gen { n: 0, g: World::random_desc(rng), skip: 0, len: rng.range(66_000, 80_000) as u64, fault, every: if fault.is_some() { rng.range(2, 3000) as u64 } else { 0 }, reset_every: 0, clone_every: 0 });
    }
    let n_ops = n_ops + ops.len();
    let k0 = nodes.len();
    // some instances are born in mid-schedule (Create op) rather than at the start
    let mut unborn: Vec<usize> = (1..k0).filter(|_| rng.chance(0.3)).collect();
    let mut live: Vec<usize> = (0..k0).filter(|i| !unborn.contains(i)).collect();
    let mut next_id = k0;
    let mut buf = vec![];
    let mut last: Option<(Input, Fault)> = None;
    while ops.len() < n_ops {
        if live.is_empty() {
            break;
        }
        if !unborn.is_empty() && rng.chance(0.08) {
            let b = unborn.remove(rng.below(unborn.len() as u64) as usize);
            ops.push(Op::Create { n: b });
            live.push(b);
            continue;
        }
        let n = *rng.pick(&live);
        // deep runs are almost only feeds: a reset or a drop every few ticks would never let the ring wrap
        let roll = if deep && rng.chance(0.97) { 0 } else { rng.below(100) };
        match roll {
            0..=74 => {
                // lock-step: with some probability deliver the tick just delivered to another node
                if let (true, Some((x, f))) = (rng.chance(0.2), last) {
                    ops.push(Op::Feed { n, x, f });
                } else {
                    buf.clear();
                    world::tick(&mut worlds[n % 8], &plan, rng, &mut buf);
                    for (x, f) in buf.drain(..) {
                        ops.push(Op::Feed { n, x, f });
                        last = Some((x, f));
                    }
                }
            }
            75..=82 => {
                // sometimes clone_from into a live instance (its buffers get reused), else a new clone
                let others: Vec<usize> = live.iter().cloned().filter(|x| *x != n).collect();
                if !others.is_empty() && rng.chance(0.35) {
                    ops.push(Op::Fork { src: n, dst: *rng.pick(&others), into: true });
                } else if next_id < 8 {
                    ops.push(Op::Fork { src: n, dst: next_id, into: false });
                    live.push(next_id);
                    next_id += 1;
                }
            }
            83..=86 => {
                if live.len() > 1 {
                    ops.push(Op::Drop { n });
                    live.retain(|x| *x != n);
                }
            }
            87..=91 => ops.push(Op::Reset { n }),
            92..=94 => ops.push(Op::Format { n }),
            _ => {
                if workers >= 2 {
                    ops.push(Op::Migrate { n, w: rng.range(0, workers - 1) });
                }
            }
        }
    }
    Scenario { property: PROP.into(), stage: if workers >= 2 { "stageB-threads".into() } else { "stageA-interleave".into() }, nodes, ops, workers }
}

// fixed corpus: all merges of two 4-op sequences over (original + clone) and (two unrelated
// instances of the same kind and parameters)

fn merges() -> Vec<u8> {
    // all 8-bit masks with exactly four bits set: bit j = op j goes to node B
    (0u16..256).filter(|m| m.count_ones() == 4).map(|m| m as u8).collect()
}

fn corpus_specs() -> Vec<NodeSpec> {
    let mut v = vec![];
    for &k in ALL_KINDS.iter() {
        let modes: Vec<Mode> = if k.has_scalar() { vec![Mode::Scalar, Mode::Bar] } else { vec![Mode::Bar] };
        let ps: Vec<usize> = if k.n_periods() == 0 { vec![1] } else { vec![1, 2, 3] };
        for m in modes {
            for &p in &ps {
                v.push(NodeSpec { kind: k, params: Params::new(p, (p % 3) + 1, ((p + 1) % 3) + 1, 2.0), mode: m, dflt: false });
            }
        }
    }
    v
}

fn seq_op(variant: u64, who: usize, j: usize, n: usize) -> Op {
    let base = if who == 0 { 10.0 } else { 50.0 };
    let j2 = j as f64;
    match (variant, j) {
        (1, 2) => Op::Reset { n },
        (2, 1) => Op::Feed { n, x: Input::scalar(f64::NAN), f: Fault::Nan },
        _ => {
            let c = base + if who == 0 { j2 * 3.0 } else { -j2 * 2.0 };
            Op::Feed { n, x: Input { o: c, h: c + 2.0 + j2, l: c - 1.0 - j2, c: c + 0.5, v: 10.0 * (j2 + 1.0) }, f: Fault::Clean }
        }
    }
}

fn corpus_count(specs: &[NodeSpec]) -> u64 {
    specs.len() as u64 * 70 * 3 * 5
}

fn corpus_scenario(idx: u64, specs: &[NodeSpec], ms: &[u8]) -> Scenario {
    let per = 70 * 3 * 5;
    let spec = specs[(idx / per) as usize];
    let mut r = idx % per;
    let mask = ms[(r % 70) as usize];
    r /= 70;
    let variant = r % 3;
    r /= 3;
    let pair = r; // 0 = two unrelated instances, 1..=4 = clone taken after pair-1 history ticks
    let mut ops = vec![];
    let nodes = if pair == 0 {
        vec![spec, spec]
    } else {
        for j in 0..(pair - 1) as usize {
            ops.push(seq_op(0, 0, j + 7, 0));
        }
        ops.push(Op::Fork { src: 0, dst: 1, into: false });
        vec![spec]
    };
    let (mut ja, mut jb) = (0, 0);
    for bit in 0..8 {
        if mask >> bit & 1 == 0 {
            ops.push(seq_op(variant, 0, ja, 0));
            ja += 1;
        } else {
            // clone and original get the SAME continuation in variant 0 (lock-step)
            ops.push(seq_op(variant, if pair > 0 && variant == 0 { 0 } else { 1 }, jb, 1));
            jb += 1;
        }
    }
    Scenario { property: PROP.into(), stage: "corpus-merges".into(), nodes, ops, workers: 0 }
}

/// corpus-large-windows (fixed): every O(1)-per-call kind with a window of 4096+ slots: two same-parameter
/// instances fed in interleaved chunks for six revolutions, a clone taken after 1.5 revolutions and continued
/// (work that only happens on large windows - chunked or parallel re-computation - must stay deterministic)
fn large_specs(periods: &[usize]) -> Vec<NodeSpec> {
    let mut v = vec![];
    for &k in ALL_KINDS.iter() {
        if !gen::cheap_per_tick(k) || k.n_periods() == 0 {
            continue;
        }
        for &p in periods {
            let mode = if k.has_scalar() { Mode::Scalar } else { Mode::Bar };
            v.push(NodeSpec { kind: k, params: Params::new(p, 3, 2, 2.0), mode, dflt: false });
        }
    }
    v
}

fn large_scenario(idx: u64, specs: &[NodeSpec]) -> Scenario {
    let spec = specs[idx as usize];
    let p = spec.params.p1 as u64;
    let chunk = p / 2 + 1;
    let g = |seed: u64| world::StreamDesc { regime: world::Regime::Walk, level: crate::sut::Fx(0.37), saw: 5, seed, neg: false };
    let mut ops = vec![];
    let mut fed = [0u64; 3];
    let push = |ops: &mut Vec<Op>, n: usize, fed: &mut [u64; 3]| {
        ops.push(Op::Gen { n, g: g(idx * 10 + n as u64), skip: fed[n], len: chunk, fault: None, every: 0, reset_every: 0, clone_every: 0 });
        fed[n] += chunk;
    };
    for r in 0..12 {
        push(&mut ops, 0, &mut fed);
        push(&mut ops, 1, &mut fed);
        if r == 2 {
            ops.push(Op::Fork { src: 0, dst: 2, into: false });
            fed[2] = fed[0];
        }
        if r >= 3 {
            // the clone gets the original's stream from where the original was when it was cloned
            ops.push(Op::Gen { n: 2, g: g(idx * 10), skip: fed[2], len: chunk, fault: None, every: 0, reset_every: 0, clone_every: 0 });
            fed[2] += chunk;
        }
    }
    Scenario { property: PROP.into(), stage: "corpus-large-windows".into(), nodes: vec![spec, spec], ops, workers: 0 }
}

// ---------------------------------------------------------------------------------------------

/// Stage D child: run a slice of stage A and B and print the digest (no files written).
pub fn child(tier: Tier) -> i32 {
    let c = report::ctx();
    let mut total = Stats::default();
    let a = run_stage_opt("stageA", 20_000, Duration::from_secs(120), &mut total, &|i| generate(&mut Rng::new(run_seed(c.seed, PROP, "stageA", i)), tier, 0), &exec, &[], 0, false);
    let saved = c.jobs;
    let _ = saved;
    let b = run_stage_seq("stageB", 200, &mut total, tier);
    if a.found.is_some() || b.found.is_some() {
        println!("DIGEST violation");
        return 1;
    }
    println!("DIGEST {:016x} runs={} ticks={}", total.digest, total.runs, total.ticks);
    0
}

/// stage B simulations run one at a time (their worker threads occupy the cores)
fn run_stage_seq(name: &str, runs: u64, total: &mut Stats, tier: Tier) -> StageOut {
    let c = report::ctx();
    report::set_stage(name);
    let mut st = Stats::default();
    let mut found = None;
    let mut executed = 0;
    for i in 0..runs {
        let mut rng = Rng::new(run_seed(c.seed, PROP, "stageB", i));
        let workers = rng.range(2, 16);
        let sc = generate(&mut rng, tier, workers);
        st.runs += 1;
        st.kind(sc.nodes[0].kind);
        st.prefix(&sc);
        st.bump(&format!("stageB_runs_with_{:02}_threads", workers));
        executed += 1;
        if i == 0 {
            let mut short = sc.clone();
            short.ops.truncate(16);
            st.samples.push(json!({"stage": name, "run": i, "total_ops": sc.ops.len(), "workers": workers, "scenario_first_ops": short}));
        }
        if let Some(v) = exec(&sc, &mut st) {
            let herm = |c: &Scenario| hermetic_exec(PROP, c).unwrap_or(None);
            let (v, confirmed) = match herm(&sc) {
                Some(v2) => (v2, true),
                None => (v, false),
            };
            if !confirmed {
                st.bump("violations_not_reproducible_in_a_fresh_process");
            }
            let minimise_with: &dyn Fn(&Scenario) -> Option<Violation> = if confirmed { &herm } else { &exec_plain };
            match report::triage(sc.clone(), v, minimise_with) {
                report::Triage::Known(l) => st.known_findings.push(l),
                report::Triage::New(b) => {
                    let (msc, mv) = *b;
                    found = Some((crate::runner::Found { run: i, scenario: msc, violation: mv }, sc.ops.len()));
                    break;
                }
            }
        }
    }
    total.merge(st);
    StageOut { name: name.into(), runs, executed, truncated: false, found }
}

fn spawn_child(seed: u64, tier: &str, jobs: usize) -> Result<String, String> {
    let exe = std::env::current_exe().map_err(|e| e.to_string())?;
    let out = std::process::Command::new(exe).args(["C05-child", tier]).env("VERIF_SEED", seed.to_string()).env("VERIF_JOBS", jobs.to_string()).env("VERIF_DRY", "1").output().map_err(|e| e.to_string())?;
    let s = String::from_utf8_lossy(&out.stdout).to_string();
    s.lines().find(|l| l.starts_with("DIGEST ")).map(|l| l.to_string()).ok_or_else(|| format!("child printed no digest: {} {}", s, String::from_utf8_lossy(&out.stderr)))
}

/// Stage C: Miri's seeded scheduler over truly concurrent threads (separate crate).
fn miri_stage(tier: Tier, seed: u64) -> (serde_json::Value, Option<String>, bool) {
    if std::env::var("VERIF_NO_MIRI").is_ok() {
        return (json!({"status": "skipped", "reason": "VERIF_NO_MIRI set"}), None, true);
    }
    let dir = report::ctx().verif.join("sim-miri");
    let (seeds, threads): (u32, &[usize]) = match tier {
        Tier::Quick => (8, &[4]),
        Tier::Thorough => (96, &[4, 16]),
    };
    let t0 = Instant::now();
    let mut runs = vec![];
    for &th in threads {
        let lo = (seed as u32 % 1000) * 1000;
        let flags = format!("-Zmiri-many-seeds={}..{} -Zmiri-preemption-rate=0.1 -Zmiri-deterministic-floats -Zmiri-disable-isolation", lo, lo + seeds);
        let out = std::process::Command::new("cargo").current_dir(&dir).args(["+nightly", "miri", "run", "--offline", "--quiet", "--", &seed.to_string(), &th.to_string()]).env("MIRIFLAGS", &flags).env("CARGO_NET_OFFLINE", "true").output();
        match out {
            Err(e) => return (json!({"status": "unavailable", "reason": e.to_string()}), None, false),
            Ok(o) => {
                let so = String::from_utf8_lossy(&o.stdout).to_string();
                let se = String::from_utf8_lossy(&o.stderr).to_string();
                let ok_lines = so.lines().filter(|l| l.starts_with("MIRI-OK")).count();
                runs.push(json!({"threads": th, "miri_seeds": format!("{}..{}", lo, lo + seeds), "ok_lines": ok_lines, "exit": o.status.code()}));
                if !o.status.success() {
                    let mismatch = so.lines().chain(se.lines()).find(|l| l.contains("MIRI-MISMATCH") || l.contains("Undefined Behavior") || l.contains("data race")).map(|s| s.to_string());
                    if let Some(m) = mismatch {
                        // a real finding: write a replay file naming the exact invocation
                        let failing = se.lines().chain(so.lines()).find(|l| l.contains("seed")).unwrap_or("").to_string();
                        let path = report::ctx().verif.join("replays").join(format!("C05-stageC-miri-{}-{}.json", seed, th));
                        let _ = std::fs::create_dir_all(path.parent().unwrap());
                        let body = json!({"property": "C05", "class": "C05/miri-concurrent-mismatch", "seed": seed, "threads": th, "miri_flags": flags, "evidence_line": m, "seed_line": failing,
                            "replay_cmd": format!("cd {} && MIRIFLAGS='{}' cargo +nightly miri run --offline -- {} {}   # or -Zmiri-seed=<n> for the single failing seed", dir.display(), flags, seed, th),
                            "stdout_tail": so.lines().rev().take(20).collect::<Vec<_>>(), "stderr_tail": se.lines().rev().take(40).collect::<Vec<_>>()});
                        let _ = std::fs::write(&path, serde_json::to_string_pretty(&body).unwrap());
                        return (json!({"status": "violation", "runs": runs}), Some(path.display().to_string()), true);
                    }
                    return (json!({"status": "unavailable", "reason": format!("cargo miri failed: {}", se.lines().rev().take(15).collect::<Vec<_>>().join(" | "))}), None, false);
                }
            }
        }
    }
    (json!({"status": "ok", "runs": runs, "wall_s": t0.elapsed().as_secs_f64()}), None, true)
}

pub fn run(tier: Tier) -> i32 {
    let c = report::ctx();
    let start = Instant::now();
    let mut total = Stats::default();
    let (a_runs, b_runs) = match tier {
        Tier::Quick => (600_000u64, 1_500u64),
        Tier::Thorough => (20_000_000u64, 60_000u64),
    };
    let wall_cap = match tier {
        Tier::Quick => Duration::from_secs(120),
        Tier::Thorough => Duration::from_secs(1500),
    };
    let specs = corpus_specs();
    let ms = merges();
    let (a_runs, b_runs) = (gen::scaled(a_runs), gen::scaled(b_runs));
    let corpus = run_stage_opt("corpus-merges", if gen::skip_fixed() { 1 } else { corpus_count(&specs) }, wall_cap, &mut total, &|i| corpus_scenario(i, &specs, &ms), &exec, &[1234], 16, true);
    let mut stages_owned: Vec<StageOut> = vec![corpus];
    if stages_owned[0].found.is_none() && !gen::skip_fixed() {
        let lp: &[usize] = match tier {
            Tier::Quick => &[4096, 4097],
            Tier::Thorough => &[4096, 4097, 8192, 12_289],
        };
        let lspecs = large_specs(lp);
        stages_owned.push(run_stage_opt("corpus-large-windows", lspecs.len() as u64, wall_cap, &mut total, &|i| large_scenario(i, &lspecs), &exec, &[], 0, true));
    }
    if stages_owned.iter().all(|s| s.found.is_none()) {
        stages_owned.push(run_stage_opt("stageA", a_runs, wall_cap, &mut total, &|i| generate(&mut Rng::new(run_seed(c.seed, PROP, "stageA", i)), tier, 0), &exec, &[0], 20, true));
    }
    if stages_owned.iter().all(|s| s.found.is_none()) {
        stages_owned.push(run_stage_seq("stageB", b_runs, &mut total, tier));
    }
    // stage E: a sample of stage-A scenarios, EACH in its own freshly started process: state that is sticky
    // for a whole process or thread (FPU control word, lazily initialised globals) is pristine there, so the
    // first creation of an instance in mid-schedule can still make a difference
    if stages_owned.iter().all(|s| s.found.is_none()) && !gen::fast() {
        let e_runs = gen::scaled(match tier {
            Tier::Quick => 600,
            Tier::Thorough => 12_000,
        });
        let herm_exec = |sc: &Scenario, st: &mut Stats| -> Option<Violation> {
            st.ticks += sc.ops.iter().filter(|o| matches!(o, Op::Feed { .. })).count() as u64;
            st.bump("scenarios_run_in_their_own_process");
            match hermetic_exec(PROP, sc) {
                Ok(v) => v,
                Err(e) => {
                    eprintln!("harness error: hermetic child failed: {}", e);
                    std::process::exit(2);
                }
            }
        };
        stages_owned.push(run_stage_opt("stageE-own-process", e_runs, wall_cap, &mut total, &|i| generate(&mut Rng::new(run_seed(c.seed, PROP, "stageE", i)), tier, 0), &herm_exec, &[], 0, true));
    }
    let stages: Vec<&StageOut> = stages_owned.iter().collect();
    let mut violations = conclude(&total, &stages);
    // stage D: two separately started processes (different PID, ASLR, start time, worker count)
    let mut stage_d = json!({"status": "skipped"});
    if violations == 0 && !gen::fast() {
        let tn = if tier == Tier::Quick { "quick" } else { "thorough" };
        match (spawn_child(c.seed, tn, 1), spawn_child(c.seed, tn, c.jobs.max(2))) {
            (Ok(a), Ok(b)) => {
                stage_d = json!({"status": if a == b { "identical" } else { "DIFFERENT" }, "process_1": a, "process_2": b});
                if a != b {
                    let path = c.verif.join("replays").join(format!("C05-stageD-{}.json", c.seed));
                    let _ = std::fs::create_dir_all(path.parent().unwrap());
                    let _ = std::fs::write(&path, serde_json::to_string_pretty(&json!({"property": "C05", "class": "C05/process-dependent-output", "seed": c.seed, "process_1": a, "process_2": b,
                        "replay_cmd": format!("VERIF_SEED={} VERIF_DRY=1 {} C05-child {}   # run twice, compare the DIGEST lines", c.seed, std::env::current_exe().map(|p| p.display().to_string()).unwrap_or_default(), tn)})).unwrap());
                    println!("stage D: output digests of two processes differ: [{}] vs [{}]", a, b);
                    println!("VIOLATION property=C05 replay={}", path.display());
                    violations += 1;
                }
            }
            (a, b) => {
                eprintln!("harness error: stage D child failed: {:?} {:?}", a.err(), b.err());
                return 2;
            }
        }
    }
    // stage C: Miri
    let mut stage_c = json!({"status": "skipped"});
    let mut miri_ok = true;
    if violations == 0 && !gen::fast() {
        let (j, viol_path, ok) = miri_stage(tier, c.seed);
        stage_c = j;
        miri_ok = ok;
        if let Some(p) = viol_path {
            println!("stage C (Miri): concurrent execution disagrees with the solo replay, or Miri reported UB/data race");
            println!("VIOLATION property=C05 replay={}", p);
            violations += 1;
        }
    }
    let wall = start.elapsed().as_secs_f64();
    let dead: Vec<&str> = [Fault::Migrate].iter().map(|f| f.name()).filter(|n| total.faults.get(n).copied().unwrap_or(0) == 0).collect();
    let digest_hash = fnv(0, format!("{:?}", stage_d).as_bytes());
    let _ = digest_hash;
    report::write_evidence(
        &total,
        report::EvidenceMeta {
            level: "exploration",
            rule: "one evaluation = one multi-instance scenario: 2..8 live instances (several of the same kind and parameters on purpose), each with its own or a shared fault-laden stream, with clone-at-arbitrary-point, drop, reset, format and (stage B) migrate-to-another-thread operations interleaved by the seeded scheduler; every output is logged and afterwards every instance is replayed solo from new() (a clone: parent's log up to the fork, then its own) and must match bit for bit, twice. corpus-merges enumerates all 70 merges of two 4-op sequences over (two unrelated same-parameter instances) and (original + clone taken after 0..3 ticks) for every indicator, periods 1..3. Stage E runs a sample of scenarios each in its own freshly started process. Stage B runs the same scenarios on 2..16 real OS threads released one operation at a time by a turn token; stage D runs a slice in two separately started processes (1 and N workers) and compares output digests; stage C runs concurrent threads under Miri's seeded scheduler. distinct_nontrivial counts distinct (indicator, period bucket, window phase, op kind, number of live instances, is-clone, single/multi-threaded and thread count, last fault, input mode) tuples at which an operation was applied in a run with more than one instance.",
            assumptions: vec![
                "stages A/B/D see only interference that persists across operation boundaries or across processes; pre-emption inside next() is explored only as far as Miri's scheduler does on small scenarios".into(),
                "an uncontrolled multi-thread stress run is deliberately not part of the check: its failures would not replay".into(),
                "bit-exact comparison of executions of the same machine code".into(),
            ],
            wall_s: wall,
            violations,
            exhaustive: false,
            extra: json!({"stages": stages_owned.iter().map(|s| (s.name.clone(), s.json())).collect::<std::collections::BTreeMap<_, _>>(),
                           "stage_C_miri": stage_c, "stage_D_two_processes": stage_d, "dead_fault_kinds": dead}),
        },
    );
    println!("C05 {:?}: {} runs, {} ticks, {} comparisons, {} situations, {:.1}s, violations={}", tier, total.runs, total.ticks, total.comparisons, total.situations.len(), wall, violations);
    if violations > 0 {
        return 1;
    }
    if !miri_ok {
        eprintln!("harness error: Miri stage could not run: {}", stage_c);
        return 2;
    }
    if !dead.is_empty() {
        eprintln!("harness error: fault kinds never fired: {:?}", dead);
        return 2;
    }
    0
}
