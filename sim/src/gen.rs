//! Shared pieces of the scenario generators.

use crate::rng::Rng;
use crate::sut::{Kind, Mode, NodeSpec, Params, ALL_KINDS};

#[derive(Clone, Copy, PartialEq, Eq, Debug)]
pub enum Tier {
    Quick,
    Thorough,
}

pub fn random_period(rng: &mut Rng, tier: Tier) -> usize {
    if rng.chance(0.35) {
        return rng.range(1, 5);
    }
    match tier {
        Tier::Quick => rng.log_range(1, 64),
        Tier::Thorough => {
            if rng.chance(0.1) {
                rng.log_range(1, 1024)
            } else {
                rng.log_range(1, 96)
            }
        }
    }
}

pub fn random_mult(rng: &mut Rng) -> f64 {
    match rng.below(20) {
        0 => 0.0,
        1 => -2.0,
        2 => 1e300,
        3 => f64::NAN,
        4 => f64::INFINITY,
        5 => -0.0,
        6..=12 => 2.0,
        _ => rng.uniform(0.5, 3.0),
    }
}

pub fn random_mode(rng: &mut Rng, kind: Kind) -> Mode {
    if kind.has_scalar() {
        *rng.pick(&[Mode::Scalar, Mode::Bar, Mode::Item])
    } else {
        *rng.pick(&[Mode::Bar, Mode::Item])
    }
}

pub fn random_spec(rng: &mut Rng, tier: Tier, among: Option<&[Kind]>) -> NodeSpec {
    let kind = *rng.pick(among.unwrap_or(&ALL_KINDS));
    let params = Params::new(random_period(rng, tier), random_period(rng, tier), random_period(rng, tier), random_mult(rng));
    NodeSpec { kind, params, mode: random_mode(rng, kind) }
}
