//! Shared pieces of the scenario generators.

use crate::rng::Rng;
use crate::sut::{Kind, Mode, NodeSpec, Params, ALL_KINDS};

#[derive(Clone, Copy, PartialEq, Eq, Debug)]
pub enum Tier {
    Quick,
    Thorough,
}

/// periods around powers of two and other boundaries (chunked loops, narrow counters)
pub const SPECIAL_PERIODS: [usize; 25] = [1, 2, 3, 4, 7, 8, 9, 15, 16, 17, 31, 32, 33, 63, 64, 65, 100, 127, 128, 129, 255, 256, 257, 512, 1024];

pub fn random_period(rng: &mut Rng, tier: Tier) -> usize {
    // very rarely a giant window (block-wise loops, periodic re-syncs and small-buffer thresholds only
    // show beyond a few thousand slots); such runs are long, so they are few
    if rng.chance(0.0003) {
        return rng.log_range(1025, 12_000);
    }
    if rng.chance(0.35) {
        return rng.range(1, 5);
    }
    if rng.chance(0.08) {
        let cap = match tier {
            Tier::Quick => 19, // up to 129 in quick
            Tier::Thorough => 25,
        };
        let k = rng.below(cap as u64) as usize;
        // the largest ones rarely: their runs are long
        if SPECIAL_PERIODS[k] <= 65 || rng.chance(0.15) {
            return SPECIAL_PERIODS[k];
        }
    }
    match tier {
        Tier::Quick => {
            // mostly <= 64; a thin tail of large windows (chunked/truncated loops only show there)
            if rng.chance(0.015) {
                rng.log_range(64, 1200)
            } else {
                rng.log_range(1, 64)
            }
        }
        Tier::Thorough => {
            if rng.chance(0.1) {
                rng.log_range(1, 1024)
            } else {
                rng.log_range(1, 96)
            }
        }
    }
}

pub fn random_mult(rng: &mut Rng) -> f64 {
    match rng.below(20) {
        0 => 0.0,
        1 => -2.0,
        2 => 1e300,
        3 => f64::NAN,
        4 => f64::INFINITY,
        5 => -0.0,
        6..=12 => 2.0,
        _ => rng.uniform(0.5, 3.0),
    }
}

pub fn random_mode(rng: &mut Rng, kind: Kind) -> Mode {
    if rng.chance(0.1) {
        return Mode::Mixed;
    }
    if kind.has_scalar() {
        *rng.pick(&[Mode::Scalar, Mode::Bar, Mode::Item])
    } else {
        *rng.pick(&[Mode::Bar, Mode::Item])
    }
}

/// windows around and beyond 2^16 slots (narrow integer types for cursors, counters, weights)
pub const MEGA_PERIODS: [usize; 8] = [65_535, 65_536, 65_537, 70_000, 100_000, 131_072, 131_073, 200_000];

/// O(1) work per call whatever the data: only these kinds get mega windows
pub fn cheap_per_tick(kind: Kind) -> bool {
    matches!(kind, Kind::Ema | Kind::Sma | Kind::Wma | Kind::Sd | Kind::Rsi | Kind::Tr | Kind::Atr | Kind::Macd | Kind::Ppo | Kind::Bb | Kind::Kc | Kind::Roc | Kind::Mfi | Kind::Obv)
}

/// The EMA family keeps no window, so astronomically large periods are valid and cheap: a fixed list
/// around 2^31, 2^32, 2^51..2^53 (where f64 stops representing every integer) and 2^62.
pub const HUGE_PERIODS: [usize; 9] = [(1 << 31) - 1, 1 << 31, (1 << 32) + 1, (1 << 51) + 1, (1 << 52) + 3, (1 << 53) + 1, (1 << 53) + 1025, (1 << 53) - 1, 1 << 62];

pub fn huge_specs() -> Vec<NodeSpec> {
    let mut v = vec![];
    for k in [Kind::Ema, Kind::Rsi, Kind::Atr, Kind::Macd, Kind::Ppo, Kind::Kc] {
        for (j, &p) in HUGE_PERIODS.iter().enumerate() {
            let mode = if j % 2 == 0 { Mode::Scalar } else { Mode::Bar };
            v.push(NodeSpec { kind: k, params: Params::new(p, 12, 9, 2.0), mode, dflt: false });
            if k.n_periods() == 3 {
                v.push(NodeSpec { kind: k, params: Params::new(12, p, 9, 2.0), mode, dflt: false });
                v.push(NodeSpec { kind: k, params: Params::new(12, 26, p, 2.0), mode, dflt: false });
            }
        }
    }
    v
}

/// a dozen ordinary bars for the fixed corpora
pub fn plain_tick(j: usize) -> crate::sut::Input {
    let c = 50.0 + ((j * 7) % 11) as f64 * 0.37 - (j % 3) as f64 * 0.11;
    crate::sut::Input { o: c - 0.2, h: c + 0.9, l: c - 1.1, c, v: 100.0 + j as f64 }
}

pub fn random_spec(rng: &mut Rng, tier: Tier, among: Option<&[Kind]>) -> NodeSpec {
    let kind = *rng.pick(among.unwrap_or(&ALL_KINDS));
    let mut params = Params::new(random_period(rng, tier), random_period(rng, tier), random_period(rng, tier), random_mult(rng));
    if rng.chance(0.00004) && cheap_per_tick(kind) {
        params.p1 = *rng.pick(&MEGA_PERIODS);
        if rng.chance(0.3) {
            params.p2 = *rng.pick(&MEGA_PERIODS);
        }
    }
    let mode = random_mode(rng, kind);
    // sometimes the subject is built by Default::default() (the reference is new() with the parameters the
    // default instance reports): an initialiser that disagrees with new()/reset() shows only there
    if rng.chance(0.03) {
        if let Some(ds) = crate::sut::default_spec(kind, mode) {
            return ds;
        }
    }
    NodeSpec { kind, params, mode, dflt: false }
}

/// VERIF_SCALE (default 1.0) scales the number of seeded runs (used by the self-tests only).
pub fn scaled(n: u64) -> u64 {
    let f = std::env::var("VERIF_SCALE").ok().and_then(|s| s.parse::<f64>().ok()).unwrap_or(1.0);
    ((n as f64 * f) as u64).max(1)
}
/// VERIF_SKIP_FIXED: skip the seed-independent corpora (self-tests of determinism only)
pub fn skip_fixed() -> bool {
    std::env::var("VERIF_SKIP_FIXED").is_ok()
}
/// VERIF_FAST: skip the sub-process stages of C05 (Miri and the two-process diff)
pub fn fast() -> bool {
    std::env::var("VERIF_FAST").is_ok()
}
