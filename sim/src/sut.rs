//! The system under test behind one object-safe trait. Everything here calls the REAL `ta` crate
//! (path dependency on /repo, feature serde); the wrappers add no logic of their own.

use serde::{de::DeserializeOwned, Deserialize, Serialize};
use std::fmt::{Debug, Display};
use ta::indicators::*;
use ta::{Close, DataItem, High, Low, Next, Open, Period, Reset, Volume};

#[derive(Clone, Copy, PartialEq, Eq, Hash, Debug, PartialOrd, Ord, Serialize, Deserialize)]
pub enum Kind {
    Ema,
    Sma,
    Wma,
    Sd,
    Mad,
    Rsi,
    Min,
    Max,
    FastStoch,
    SlowStoch,
    Tr,
    Atr,
    Macd,
    Ppo,
    Cci,
    Er,
    Bb,
    Ce,
    Kc,
    Roc,
    Mfi,
    Obv,
}

pub const ALL_KINDS: [Kind; 22] = [
    Kind::Ema,
    Kind::Sma,
    Kind::Wma,
    Kind::Sd,
    Kind::Mad,
    Kind::Rsi,
    Kind::Min,
    Kind::Max,
    Kind::FastStoch,
    Kind::SlowStoch,
    Kind::Tr,
    Kind::Atr,
    Kind::Macd,
    Kind::Ppo,
    Kind::Cci,
    Kind::Er,
    Kind::Bb,
    Kind::Ce,
    Kind::Kc,
    Kind::Roc,
    Kind::Mfi,
    Kind::Obv,
];

impl Kind {
    pub fn name(self) -> &'static str {
        match self {
            Kind::Ema => "ExponentialMovingAverage",
            Kind::Sma => "SimpleMovingAverage",
            Kind::Wma => "WeightedMovingAverage",
            Kind::Sd => "StandardDeviation",
            Kind::Mad => "MeanAbsoluteDeviation",
            Kind::Rsi => "RelativeStrengthIndex",
            Kind::Min => "Minimum",
            Kind::Max => "Maximum",
            Kind::FastStoch => "FastStochastic",
            Kind::SlowStoch => "SlowStochastic",
            Kind::Tr => "TrueRange",
            Kind::Atr => "AverageTrueRange",
            Kind::Macd => "MovingAverageConvergenceDivergence",
            Kind::Ppo => "PercentagePriceOscillator",
            Kind::Cci => "CommodityChannelIndex",
            Kind::Er => "EfficiencyRatio",
            Kind::Bb => "BollingerBands",
            Kind::Ce => "ChandelierExit",
            Kind::Kc => "KeltnerChannel",
            Kind::Roc => "RateOfChange",
            Kind::Mfi => "MoneyFlowIndex",
            Kind::Obv => "OnBalanceVolume",
        }
    }
    pub fn idx(self) -> usize {
        ALL_KINDS.iter().position(|k| *k == self).unwrap()
    }
    /// number of period parameters of `new`
    pub fn n_periods(self) -> usize {
        match self {
            Kind::Tr | Kind::Obv => 0,
            Kind::SlowStoch => 2,
            Kind::Macd | Kind::Ppo => 3,
            _ => 1,
        }
    }
    pub fn has_multiplier(self) -> bool {
        matches!(self, Kind::Bb | Kind::Ce | Kind::Kc)
    }
    /// does the type implement `Next<f64>`?
    pub fn has_scalar(self) -> bool {
        !matches!(self, Kind::Cci | Kind::Ce | Kind::Mfi | Kind::Obv)
    }
    /// number of f64 components of the output
    pub fn arity(self) -> usize {
        match self {
            Kind::Macd | Kind::Ppo | Kind::Bb | Kind::Kc => 3,
            Kind::Ce => 2,
            _ => 1,
        }
    }
    /// does the bar path read more than `close`?
    pub fn bar_uses_hl(self) -> bool {
        matches!(
            self,
            Kind::Min | Kind::Max | Kind::FastStoch | Kind::SlowStoch | Kind::Tr | Kind::Atr | Kind::Cci | Kind::Ce | Kind::Kc | Kind::Mfi
        )
    }
    pub fn uses_volume(self) -> bool {
        matches!(self, Kind::Mfi | Kind::Obv)
    }
}

/// f64 carried as its bit pattern in JSON (NaN payloads, -0.0 and infinities survive).
#[derive(Clone, Copy, PartialEq, Debug)]
pub struct Fx(pub f64);
impl Serialize for Fx {
    fn serialize<S: serde::Serializer>(&self, s: S) -> Result<S::Ok, S::Error> {
        s.serialize_str(&format!("0x{:016x}", self.0.to_bits()))
    }
}
impl<'de> Deserialize<'de> for Fx {
    fn deserialize<D: serde::Deserializer<'de>>(d: D) -> Result<Self, D::Error> {
        let s = String::deserialize(d)?;
        let t = s.trim_start_matches("0x");
        u64::from_str_radix(t, 16).map(|b| Fx(f64::from_bits(b))).map_err(serde::de::Error::custom)
    }
}

#[derive(Clone, Copy, PartialEq, Debug, Serialize, Deserialize)]
pub struct Params {
    pub p1: usize,
    pub p2: usize,
    pub p3: usize,
    pub mult: Fx,
}

impl Params {
    pub fn new(p1: usize, p2: usize, p3: usize, mult: f64) -> Self {
        Params { p1, p2, p3, mult: Fx(mult) }
    }
    /// sum of the periods the kind actually uses (0 for TR/OBV)
    pub fn sum_periods(&self, k: Kind) -> usize {
        match k.n_periods() {
            0 => 0,
            1 => self.p1,
            2 => self.p1 + self.p2,
            _ => self.p1 + self.p2 + self.p3,
        }
    }
    /// main window length (what "n" means for the windowed kinds); 1 for TR/OBV
    pub fn window(&self, k: Kind) -> usize {
        match k.n_periods() {
            0 => 1,
            1 => self.p1,
            2 => self.p1.max(self.p2),
            _ => self.p1.max(self.p2).max(self.p3),
        }
    }
}

#[derive(Clone, Copy, PartialEq, Eq, Hash, Debug, PartialOrd, Ord, Serialize, Deserialize)]
pub enum Mode {
    Scalar,
    Bar,
    Item,
    /// every tick goes through one of the three paths, chosen by a hash of the tick itself (the same
    /// choice for subject and reference): one instance sees `Next<f64>` and `Next<&T>` calls mixed
    Mixed,
}

#[derive(Clone, Copy, PartialEq, Debug, Serialize, Deserialize)]
pub struct NodeSpec {
    pub kind: Kind,
    pub params: Params,
    pub mode: Mode,
    /// the subject is built by `Default::default()`; `params` then hold what the default instance reports
    /// through its accessors, and the reference side is `new(params)`
    #[serde(default)]
    pub dflt: bool,
}

/// One tick of market data. Scalar mode feeds `c`.
#[derive(Clone, Copy, Debug)]
pub struct Input {
    pub o: f64,
    pub h: f64,
    pub l: f64,
    pub c: f64,
    pub v: f64,
}
impl PartialEq for Input {
    fn eq(&self, other: &Self) -> bool {
        self.bits() == other.bits()
    }
}
impl Input {
    pub fn scalar(x: f64) -> Self {
        Input { o: x, h: x, l: x, c: x, v: 1.0 }
    }
    pub fn bits(&self) -> [u64; 5] {
        [self.o.to_bits(), self.h.to_bits(), self.l.to_bits(), self.c.to_bits(), self.v.to_bits()]
    }
    pub fn fields(&self) -> [f64; 5] {
        [self.o, self.h, self.l, self.c, self.v]
    }
    pub fn from_fields(f: [f64; 5]) -> Self {
        Input { o: f[0], h: f[1], l: f[2], c: f[3], v: f[4] }
    }
    pub fn all_finite(&self) -> bool {
        self.fields().iter().all(|x| x.is_finite())
    }
    /// would `DataItem::builder()...build()` accept it?
    pub fn valid_item(&self) -> bool {
        self.l <= self.o && self.l <= self.c && self.l <= self.h && self.h >= self.o && self.h >= self.c && self.v >= 0.0
    }
    pub fn max_abs_price(&self) -> f64 {
        let mut m = 0.0f64;
        for x in [self.o, self.h, self.l, self.c] {
            if x.is_finite() {
                m = m.max(x.abs());
            }
        }
        m
    }
}
impl Serialize for Input {
    fn serialize<S: serde::Serializer>(&self, s: S) -> Result<S::Ok, S::Error> {
        let f = self.fields();
        if f[0].to_bits() == f[3].to_bits() && f[1].to_bits() == f[3].to_bits() && f[2].to_bits() == f[3].to_bits() && f[4] == 1.0 {
            // scalar-shaped tick: a single value
            Fx(f[3]).serialize(s)
        } else {
            [Fx(f[0]), Fx(f[1]), Fx(f[2]), Fx(f[3]), Fx(f[4])].serialize(s)
        }
    }
}
impl<'de> Deserialize<'de> for Input {
    fn deserialize<D: serde::Deserializer<'de>>(d: D) -> Result<Self, D::Error> {
        #[derive(Deserialize)]
        #[serde(untagged)]
        enum E {
            One(Fx),
            Five([Fx; 5]),
        }
        Ok(match E::deserialize(d)? {
            E::One(x) => Input::scalar(x.0),
            E::Five(a) => Input { o: a[0].0, h: a[1].0, l: a[2].0, c: a[3].0, v: a[4].0 },
        })
    }
}

/// A non-`DataItem` implementor of the five price traits, so the generic `Next<&T>` path is
/// exercised by a foreign type as well (and can carry bars `DataItem::build` would reject).
#[derive(Clone, Copy, Debug)]
pub struct Bar(pub Input);
impl Open for Bar {
    fn open(&self) -> f64 {
        self.0.o
    }
}
impl High for Bar {
    fn high(&self) -> f64 {
        self.0.h
    }
}
impl Low for Bar {
    fn low(&self) -> f64 {
        self.0.l
    }
}
impl Close for Bar {
    fn close(&self) -> f64 {
        self.0.c
    }
}
impl Volume for Bar {
    fn volume(&self) -> f64 {
        self.0.v
    }
}

pub fn make_item(x: &Input) -> Option<DataItem> {
    DataItem::builder().open(x.o).high(x.h).low(x.l).close(x.c).volume(x.v).build().ok()
}

/// Output of one `next()` call: up to three f64 components.
#[derive(Clone, Copy, Debug)]
pub struct Out {
    pub v: [f64; 3],
    pub n: u8,
}
impl Out {
    pub fn one(x: f64) -> Out {
        Out { v: [x, 0.0, 0.0], n: 1 }
    }
    pub fn bits(&self) -> [u64; 3] {
        [self.v[0].to_bits(), self.v[1].to_bits(), self.v[2].to_bits()]
    }
    pub fn same_bits(&self, o: &Out) -> bool {
        self.n == o.n && self.bits() == o.bits()
    }
    pub fn hex(&self) -> Vec<String> {
        (0..self.n as usize).map(|i| format!("0x{:016x} ({:?})", self.v[i].to_bits(), self.v[i])).collect()
    }
}

pub trait Sut: Send {
    fn kind(&self) -> Kind;
    /// `Next<f64>`; None when the type has no scalar input
    fn feed_scalar(&mut self, x: f64) -> Option<Out>;
    /// `Next<&Bar>` (foreign implementor of the price traits)
    fn feed_bar(&mut self, b: &Bar) -> Out;
    /// `Next<&DataItem>`
    fn feed_item(&mut self, b: &DataItem) -> Out;
    fn reset(&mut self);
    /// derived `Clone`
    fn fork(&self) -> Box<dyn Sut>;
    fn as_any(&self) -> &dyn std::any::Any;
    /// `Clone::clone_from(self, src)` when `src` is the same indicator type (any parameters);
    /// returns false and does nothing otherwise
    fn clone_from_sut(&mut self, src: &dyn Sut) -> bool;
    /// `bincode::serialize`
    fn save(&self) -> Result<Vec<u8>, String>;
    /// `bincode::serialized_size`
    fn save_size(&self) -> Result<u64, String>;
    /// `bincode::deserialize` into the same type
    fn load(&self, bytes: &[u8]) -> Result<Box<dyn Sut>, String>;
    /// `bincode::deserialize_from` an `io::Read`
    fn load_reader(&self, bytes: &[u8]) -> Result<Box<dyn Sut>, String>;
    /// `Deserialize::deserialize_in_place` over a live instance (bincode's `deserialize_in_place`): a roll-back
    /// to a checkpoint, or a restore into a recycled instance; whatever the target held must be gone
    fn load_in_place(&mut self, bytes: &[u8]) -> Result<(), String>;
    /// `serde_json::to_string` (a human-readable format; fails on non-finite state, which JSON cannot carry)
    fn save_json(&self) -> Result<String, String>;
    fn load_json(&self, text: &str) -> Result<Box<dyn Sut>, String>;
    fn display(&self) -> String;
    fn debug(&self) -> String;
    /// Display and Debug through the other paths of `std::fmt`: width, fill, alignment, precision, sign and
    /// zero-padding flags, and pretty Debug; returns the total length (the text itself is not judged)
    fn format_variants(&self, with_debug: bool) -> usize;
    /// `{}` and `{:?}` into a sink that counts and discards (a logger writing to a socket): the harness allocates
    /// nothing, so whatever the heap holds afterwards was kept by the indicator
    fn fmt_discard(&self) -> usize;
    fn period(&self) -> Option<usize>;
    fn multiplier(&self) -> Option<f64>;
}

impl dyn Sut {
    /// feed one tick in the given mode. Item mode falls back to Bar when the builder rejects the bar
    /// (returns the mode actually used).
    pub fn feed(&mut self, mode: Mode, x: &Input) -> (Out, Mode) {
        let mode = if mode == Mode::Mixed {
            let h = x.c.to_bits().wrapping_mul(0x9E37_79B9_7F4A_7C15) ^ x.v.to_bits().rotate_left(17) ^ x.h.to_bits().rotate_left(31);
            [Mode::Scalar, Mode::Bar, Mode::Item][((h >> 29) % 3) as usize]
        } else {
            mode
        };
        match mode {
            Mode::Scalar => match self.feed_scalar(x.c) {
                Some(o) => (o, Mode::Scalar),
                None => (self.feed_bar(&Bar(*x)), Mode::Bar),
            },
            Mode::Bar => (self.feed_bar(&Bar(*x)), Mode::Bar),
            Mode::Item => match make_item(x) {
                Some(it) => (self.feed_item(&it), Mode::Item),
                None => (self.feed_bar(&Bar(*x)), Mode::Bar),
            },
            Mode::Mixed => unreachable!(),
        }
    }
}

trait Ind: Clone + Debug + Display + Reset + Serialize + DeserializeOwned + Send + 'static {
    const KIND: Kind;
    fn scalar(&mut self, _x: f64) -> Option<Out> {
        None
    }
    fn bar<T: Open + High + Low + Close + Volume>(&mut self, b: &T) -> Out;
    fn per(&self) -> Option<usize>;
    fn mul(&self) -> Option<f64> {
        None
    }
}

struct W<I: Ind>(I);

impl<I: Ind> Sut for W<I> {
    fn kind(&self) -> Kind {
        I::KIND
    }
    fn feed_scalar(&mut self, x: f64) -> Option<Out> {
        self.0.scalar(x)
    }
    fn feed_bar(&mut self, b: &Bar) -> Out {
        self.0.bar(b)
    }
    fn feed_item(&mut self, b: &DataItem) -> Out {
        self.0.bar(b)
    }
    fn reset(&mut self) {
        self.0.reset()
    }
    fn fork(&self) -> Box<dyn Sut> {
        Box::new(W(self.0.clone()))
    }
    fn as_any(&self) -> &dyn std::any::Any {
        self
    }
    fn clone_from_sut(&mut self, src: &dyn Sut) -> bool {
        match src.as_any().downcast_ref::<W<I>>() {
            Some(s) => {
                self.0.clone_from(&s.0);
                true
            }
            None => false,
        }
    }
    fn save(&self) -> Result<Vec<u8>, String> {
        bincode::serialize(&self.0).map_err(|e| e.to_string())
    }
    fn save_size(&self) -> Result<u64, String> {
        bincode::serialized_size(&self.0).map_err(|e| e.to_string())
    }
    fn load(&self, bytes: &[u8]) -> Result<Box<dyn Sut>, String> {
        bincode::deserialize::<I>(bytes).map(|i| Box::new(W(i)) as Box<dyn Sut>).map_err(|e| e.to_string())
    }
    fn load_reader(&self, bytes: &[u8]) -> Result<Box<dyn Sut>, String> {
        // restore from an io::Read (a file, a socket): nothing can be borrowed from the input
        bincode::deserialize_from::<_, I>(std::io::Cursor::new(bytes)).map(|i| Box::new(W(i)) as Box<dyn Sut>).map_err(|e| e.to_string())
    }
    fn load_in_place(&mut self, bytes: &[u8]) -> Result<(), String> {
        use bincode::Options;
        // the configuration `bincode::deserialize` uses
        let opts = bincode::options().with_fixint_encoding().allow_trailing_bytes();
        let mut de = bincode::Deserializer::from_slice(bytes, opts);
        serde::Deserialize::deserialize_in_place(&mut de, &mut self.0).map_err(|e| e.to_string())
    }
    fn save_json(&self) -> Result<String, String> {
        serde_json::to_string(&self.0).map_err(|e| e.to_string())
    }
    fn load_json(&self, text: &str) -> Result<Box<dyn Sut>, String> {
        serde_json::from_str::<I>(text).map(|i| Box::new(W(i)) as Box<dyn Sut>).map_err(|e| e.to_string())
    }
    fn display(&self) -> String {
        format!("{}", self.0)
    }
    fn debug(&self) -> String {
        format!("{:?}", self.0)
    }
    fn fmt_discard(&self) -> usize {
        use std::fmt::Write;
        struct Sink(usize);
        impl Write for Sink {
            fn write_str(&mut self, t: &str) -> std::fmt::Result {
                self.0 += t.len();
                Ok(())
            }
        }
        let mut k = Sink(0);
        let _ = write!(k, "{} {:?}", self.0, self.0);
        k.0
    }
    fn format_variants(&self, with_debug: bool) -> usize {
        let i = &self.0;
        let d = format!("{:>1}|{:>16}|{:<40}|{:^7}|{:*^25}|{:08}|{:.2}|{:+}|{:>3.1}", i, i, i, i, i, i, i, i, i).len();
        // Debug prints the whole window: the pretty and padded forms only now and then
        if with_debug {
            d + format!("{:#?}|{:10?}", i, i).len()
        } else {
            d
        }
    }
    fn period(&self) -> Option<usize> {
        self.0.per()
    }
    fn multiplier(&self) -> Option<f64> {
        self.0.mul()
    }
}

macro_rules! ind_f64 {
    ($ty:ty, $kind:expr, scalar = $sc:tt, period = $per:tt) => {
        impl Ind for $ty {
            const KIND: Kind = $kind;
            ind_f64!(@scalar $sc);
            fn bar<T: Open + High + Low + Close + Volume>(&mut self, b: &T) -> Out {
                Out::one(Next::<&T>::next(self, b))
            }
            ind_f64!(@period $per);
        }
    };
    (@scalar yes) => {
        fn scalar(&mut self, x: f64) -> Option<Out> {
            Some(Out::one(Next::<f64>::next(self, x)))
        }
    };
    (@scalar no) => {};
    (@period yes) => {
        fn per(&self) -> Option<usize> {
            Some(Period::period(self))
        }
    };
    (@period no) => {
        fn per(&self) -> Option<usize> {
            None
        }
    };
}

ind_f64!(ExponentialMovingAverage, Kind::Ema, scalar = yes, period = yes);
ind_f64!(SimpleMovingAverage, Kind::Sma, scalar = yes, period = yes);
ind_f64!(WeightedMovingAverage, Kind::Wma, scalar = yes, period = yes);
ind_f64!(StandardDeviation, Kind::Sd, scalar = yes, period = yes);
ind_f64!(MeanAbsoluteDeviation, Kind::Mad, scalar = yes, period = yes);
ind_f64!(RelativeStrengthIndex, Kind::Rsi, scalar = yes, period = yes);
ind_f64!(Minimum, Kind::Min, scalar = yes, period = yes);
ind_f64!(Maximum, Kind::Max, scalar = yes, period = yes);
ind_f64!(FastStochastic, Kind::FastStoch, scalar = yes, period = yes);
ind_f64!(SlowStochastic, Kind::SlowStoch, scalar = yes, period = no);
ind_f64!(TrueRange, Kind::Tr, scalar = yes, period = no);
ind_f64!(AverageTrueRange, Kind::Atr, scalar = yes, period = yes);
ind_f64!(CommodityChannelIndex, Kind::Cci, scalar = no, period = yes);
ind_f64!(EfficiencyRatio, Kind::Er, scalar = yes, period = yes);
ind_f64!(RateOfChange, Kind::Roc, scalar = yes, period = yes);
ind_f64!(MoneyFlowIndex, Kind::Mfi, scalar = no, period = yes);
ind_f64!(OnBalanceVolume, Kind::Obv, scalar = no, period = no);

impl Ind for MovingAverageConvergenceDivergence {
    const KIND: Kind = Kind::Macd;
    fn scalar(&mut self, x: f64) -> Option<Out> {
        let o = Next::<f64>::next(self, x);
        Some(Out { v: [o.macd, o.signal, o.histogram], n: 3 })
    }
    fn bar<T: Open + High + Low + Close + Volume>(&mut self, b: &T) -> Out {
        let o = Next::<&T>::next(self, b);
        Out { v: [o.macd, o.signal, o.histogram], n: 3 }
    }
    fn per(&self) -> Option<usize> {
        None
    }
}
impl Ind for PercentagePriceOscillator {
    const KIND: Kind = Kind::Ppo;
    fn scalar(&mut self, x: f64) -> Option<Out> {
        let o = Next::<f64>::next(self, x);
        Some(Out { v: [o.ppo, o.signal, o.histogram], n: 3 })
    }
    fn bar<T: Open + High + Low + Close + Volume>(&mut self, b: &T) -> Out {
        let o = Next::<&T>::next(self, b);
        Out { v: [o.ppo, o.signal, o.histogram], n: 3 }
    }
    fn per(&self) -> Option<usize> {
        None
    }
}
impl Ind for BollingerBands {
    const KIND: Kind = Kind::Bb;
    fn scalar(&mut self, x: f64) -> Option<Out> {
        let o = Next::<f64>::next(self, x);
        Some(Out { v: [o.average, o.upper, o.lower], n: 3 })
    }
    fn bar<T: Open + High + Low + Close + Volume>(&mut self, b: &T) -> Out {
        let o = Next::<&T>::next(self, b);
        Out { v: [o.average, o.upper, o.lower], n: 3 }
    }
    fn per(&self) -> Option<usize> {
        Some(Period::period(self))
    }
    fn mul(&self) -> Option<f64> {
        Some(self.multiplier())
    }
}
impl Ind for KeltnerChannel {
    const KIND: Kind = Kind::Kc;
    fn scalar(&mut self, x: f64) -> Option<Out> {
        let o = Next::<f64>::next(self, x);
        Some(Out { v: [o.average, o.upper, o.lower], n: 3 })
    }
    fn bar<T: Open + High + Low + Close + Volume>(&mut self, b: &T) -> Out {
        let o = Next::<&T>::next(self, b);
        Out { v: [o.average, o.upper, o.lower], n: 3 }
    }
    fn per(&self) -> Option<usize> {
        Some(Period::period(self))
    }
    fn mul(&self) -> Option<f64> {
        Some(self.multiplier())
    }
}
impl Ind for ChandelierExit {
    const KIND: Kind = Kind::Ce;
    fn bar<T: Open + High + Low + Close + Volume>(&mut self, b: &T) -> Out {
        let o = Next::<&T>::next(self, b);
        Out { v: [o.long, o.short, 0.0], n: 2 }
    }
    fn per(&self) -> Option<usize> {
        Some(Period::period(self))
    }
    fn mul(&self) -> Option<f64> {
        Some(self.multiplier())
    }
}

/// Construct through the public `new` only.
pub fn build(kind: Kind, p: &Params) -> Result<Box<dyn Sut>, String> {
    fn b<I: Ind>(r: Result<I, ta::errors::TaError>) -> Result<Box<dyn Sut>, String> {
        r.map(|i| Box::new(W(i)) as Box<dyn Sut>).map_err(|e| e.to_string())
    }
    let m = p.mult.0;
    match kind {
        Kind::Ema => b(ExponentialMovingAverage::new(p.p1)),
        Kind::Sma => b(SimpleMovingAverage::new(p.p1)),
        Kind::Wma => b(WeightedMovingAverage::new(p.p1)),
        Kind::Sd => b(StandardDeviation::new(p.p1)),
        Kind::Mad => b(MeanAbsoluteDeviation::new(p.p1)),
        Kind::Rsi => b(RelativeStrengthIndex::new(p.p1)),
        Kind::Min => b(Minimum::new(p.p1)),
        Kind::Max => b(Maximum::new(p.p1)),
        Kind::FastStoch => b(FastStochastic::new(p.p1)),
        Kind::SlowStoch => b(SlowStochastic::new(p.p1, p.p2)),
        Kind::Tr => b(Ok(TrueRange::new())),
        Kind::Atr => b(AverageTrueRange::new(p.p1)),
        Kind::Macd => b(MovingAverageConvergenceDivergence::new(p.p1, p.p2, p.p3)),
        Kind::Ppo => b(PercentagePriceOscillator::new(p.p1, p.p2, p.p3)),
        Kind::Cci => b(CommodityChannelIndex::new(p.p1)),
        Kind::Er => b(EfficiencyRatio::new(p.p1)),
        Kind::Bb => b(BollingerBands::new(p.p1, m)),
        Kind::Ce => b(ChandelierExit::new(p.p1, m)),
        Kind::Kc => b(KeltnerChannel::new(p.p1, m)),
        Kind::Roc => b(RateOfChange::new(p.p1)),
        Kind::Mfi => b(MoneyFlowIndex::new(p.p1)),
        Kind::Obv => b(Ok(OnBalanceVolume::new())),
    }
}

pub fn build_spec(s: &NodeSpec) -> Box<dyn Sut> {
    if s.dflt {
        return build_default(s.kind);
    }
    build(s.kind, &s.params).expect("harness only generates valid parameters")
}

/// the reference side: always through the public `new`
pub fn build_ref(s: &NodeSpec) -> Box<dyn Sut> {
    build(s.kind, &s.params).expect("harness only generates valid parameters")
}

/// `Default::default()` of the indicator type
pub fn build_default(kind: Kind) -> Box<dyn Sut> {
    fn d<I: Ind + Default>() -> Box<dyn Sut> {
        Box::new(W(I::default()))
    }
    match kind {
        Kind::Ema => d::<ExponentialMovingAverage>(),
        Kind::Sma => d::<SimpleMovingAverage>(),
        Kind::Wma => d::<WeightedMovingAverage>(),
        Kind::Sd => d::<StandardDeviation>(),
        Kind::Mad => d::<MeanAbsoluteDeviation>(),
        Kind::Rsi => d::<RelativeStrengthIndex>(),
        Kind::Min => d::<Minimum>(),
        Kind::Max => d::<Maximum>(),
        Kind::FastStoch => d::<FastStochastic>(),
        Kind::SlowStoch => d::<SlowStochastic>(),
        Kind::Tr => d::<TrueRange>(),
        Kind::Atr => d::<AverageTrueRange>(),
        Kind::Macd => d::<MovingAverageConvergenceDivergence>(),
        Kind::Ppo => d::<PercentagePriceOscillator>(),
        Kind::Cci => d::<CommodityChannelIndex>(),
        Kind::Er => d::<EfficiencyRatio>(),
        Kind::Bb => d::<BollingerBands>(),
        Kind::Ce => d::<ChandelierExit>(),
        Kind::Kc => d::<KeltnerChannel>(),
        Kind::Roc => d::<RateOfChange>(),
        Kind::Mfi => d::<MoneyFlowIndex>(),
        Kind::Obv => d::<OnBalanceVolume>(),
    }
}

/// Spec of a `Default`-built subject: the parameters are read from the default instance's own accessors
/// (so the check follows a legitimate change of the defaults); None for the kinds whose parameters
/// cannot be read back (SlowStochastic, MACD, PPO have no Period).
pub fn default_spec(kind: Kind, mode: Mode) -> Option<NodeSpec> {
    let d = build_default(kind);
    let params = match kind.n_periods() {
        0 => Params::new(1, 1, 1, 2.0),
        1 => Params::new(d.period()?, 1, 1, d.multiplier().unwrap_or(2.0)),
        _ => return None,
    };
    Some(NodeSpec { kind, params, mode, dflt: true })
}

/// serialize / deserialize a DataItem through bincode
pub fn item_roundtrip(it: &DataItem) -> Result<DataItem, String> {
    let bytes = bincode::serialize(it).map_err(|e| e.to_string())?;
    bincode::deserialize::<DataItem>(&bytes).map_err(|e| e.to_string())
}

pub fn item_bits(it: &DataItem) -> [u64; 5] {
    [it.open().to_bits(), it.high().to_bits(), it.low().to_bits(), it.close().to_bits(), it.volume().to_bits()]
}

// compile-time witness that boxed SUTs can cross threads (C05 stage B relies on it)
#[allow(dead_code)]
fn _assert_send() {
    fn is_send<T: Send>() {}
    is_send::<Box<dyn Sut>>();
}
