//! Comparison modes shared by the relational oracles. The expected side is always the same real
//! code executed without the transformation under test, never a re-implemented model.

use crate::sut::{Input, Kind, Out};

/// bit-identical, NaN payloads included
pub fn bits_eq(a: &Out, b: &Out) -> bool {
    a.same_bits(b)
}

/// both NaN, or equal infinities, or |a-b| <= 1e-12 * max(|a|,|b|,scale)
pub fn rel12(a: f64, b: f64, scale: f64) -> bool {
    if a.to_bits() == b.to_bits() {
        return true;
    }
    if a.is_nan() && b.is_nan() {
        return true;
    }
    if a.is_nan() || b.is_nan() {
        return false;
    }
    if a.is_infinite() || b.is_infinite() {
        return a == b;
    }
    (a - b).abs() <= 1e-12 * a.abs().max(b.abs()).max(scale)
}

/// Ring of the most recent input magnitudes since the last reset; only consulted when bits differ
/// (today: never), so it costs a store per tick.
#[derive(Clone, Debug)]
pub struct Scale {
    ring: Vec<f64>,
    pos: usize,
    vol_sum: f64,
}

impl Scale {
    pub fn new(window: usize) -> Self {
        // windowless (EMA-family) indicators may carry astronomically large periods: the scale window is capped
        Scale { ring: vec![0.0; window.clamp(1, 1 << 18) + 1], pos: 0, vol_sum: 0.0 }
    }
    pub fn reset(&mut self) {
        for x in self.ring.iter_mut() {
            *x = 0.0;
        }
        self.pos = 0;
        self.vol_sum = 0.0;
    }
    pub fn push(&mut self, x: &Input) {
        self.ring[self.pos] = x.max_abs_price();
        self.pos = (self.pos + 1) % self.ring.len();
        if x.v.is_finite() {
            self.vol_sum += x.v.abs();
        }
    }
    pub fn price(&self) -> f64 {
        self.ring.iter().cloned().fold(0.0, f64::max)
    }
    /// natural scale of the output of `kind`
    pub fn of(&self, kind: Kind) -> f64 {
        match kind {
            Kind::Rsi | Kind::FastStoch | Kind::SlowStoch | Kind::Mfi | Kind::Roc | Kind::Ppo => 100.0,
            Kind::Er => 1.0,
            Kind::Cci => 1.0 / 0.015,
            Kind::Obv => self.vol_sum,
            _ => self.price(),
        }
    }
}

/// compare all components with rel12; returns the index of the first mismatching component
pub fn out_rel12(a: &Out, b: &Out, scale: f64) -> Option<usize> {
    if a.n != b.n {
        return Some(0);
    }
    (0..a.n as usize).find(|&i| !rel12(a.v[i], b.v[i], scale))
}

/// C17 tolerance factor tau(t) = 1e-12 + 1e-15 * t^1.5
pub fn tau(t: u64) -> f64 {
    1e-12 + 1e-15 * (t as f64).powf(1.5)
}
