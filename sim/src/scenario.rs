//! Scenario = explicit operation list. Generators only *produce* scenarios; executors are pure
//! functions `(scenario) -> Result<(), Violation>`, which is what makes minimisation and replay
//! independent of the PRNG.

use crate::sut::{Input, NodeSpec};
use crate::world::{Fault, StreamDesc};
use serde::{Deserialize, Serialize};

#[derive(Clone, PartialEq, Debug, Serialize, Deserialize)]
#[serde(tag = "op")]
pub enum Op {
    /// one tick delivered to node `n`
    Feed { n: usize, x: Input, f: Fault },
    /// `len` clean ticks expanded deterministically from a stream descriptor (long uptimes)
    /// `every` > 0: every `every`-th tick is corrupted with `fault` (deterministically);
    /// `reset_every` > 0: reset() is called before every `reset_every`-th tick
    Gen {
        n: usize,
        g: StreamDesc,
        skip: u64,
        len: u64,
        #[serde(default)]
        fault: Option<Fault>,
        #[serde(default)]
        every: u64,
        #[serde(default)]
        reset_every: u64,
        /// `clone_every` > 0: the node is replaced by its clone before every such tick (C18: growth
        /// through repeated clone cycles rather than through next())
        #[serde(default)]
        clone_every: u64,
    },
    Reset { n: usize },
    /// construct node `n` (from `nodes[n]`) at this point of the schedule instead of at the start: creating an
    /// instance is an operation too, and must not disturb the live ones
    Create { n: usize },
    /// derived Clone of `src` becomes node `dst`
    Fork {
        src: usize,
        dst: usize,
        /// `dst.clone_from(&src)` into an existing instance of the same type instead of `dst = src.clone()`
        #[serde(default)]
        into: bool,
    },
    Drop { n: usize },
    /// write a checkpoint generation to the simulated disk; `lost` = the write never became durable
    Ckpt { n: usize, lost: bool },
    /// crash + restore from newest durable generation + journal replay; `recrash` > 0 crashes again
    /// after that many replayed journal entries
    Crash { n: usize, recrash: u32 },
    /// serialize -> deserialize in place, `times` times
    RoundTrip {
        n: usize,
        times: u32,
        /// through serde_json instead of bincode (skipped when the state is not representable in JSON)
        #[serde(default)]
        json: bool,
    },
    /// move the node to another worker thread
    Migrate { n: usize, w: usize },
    /// Display + Debug + accessors
    Format { n: usize },
    /// C17: (re)create the cold-started rookie next to the veteran
    Cold { n: usize },
    /// bincode save + load + compare nothing (C12 totality of serialization)
    Save { n: usize },
    /// `len` calls fed from a fixed cycle of 4096 clean ticks (derived from `seed`): billions of calls on
    /// one instance at a few ns each - a 32-bit call counter wraps (C12 thorough)
    Soak { n: usize, seed: u64, len: u64 },
}

impl Op {
    pub fn node(&self) -> usize {
        match self {
            Op::Feed { n, .. }
            | Op::Gen { n, .. }
            | Op::Reset { n }
            | Op::Create { n }
            | Op::Drop { n }
            | Op::Ckpt { n, .. }
            | Op::Crash { n, .. }
            | Op::RoundTrip { n, .. }
            | Op::Migrate { n, .. }
            | Op::Format { n }
            | Op::Cold { n }
            | Op::Save { n }
            | Op::Soak { n, .. } => *n,
            Op::Fork { src, .. } => *src,
        }
    }
    pub fn kind_name(&self) -> &'static str {
        match self {
            Op::Feed { .. } => "feed",
            Op::Gen { .. } => "gen",
            Op::Reset { .. } => "reset",
            Op::Create { .. } => "create",
            Op::Fork { .. } => "fork",
            Op::Drop { .. } => "drop",
            Op::Ckpt { .. } => "checkpoint",
            Op::Crash { .. } => "crash",
            Op::RoundTrip { .. } => "roundtrip",
            Op::Migrate { .. } => "migrate",
            Op::Format { .. } => "format",
            Op::Cold { .. } => "cold_restart",
            Op::Save { .. } => "save",
            Op::Soak { .. } => "soak",
        }
    }
    pub fn kind_code(&self) -> u64 {
        match self {
            Op::Feed { .. } => 1,
            Op::Gen { .. } => 2,
            Op::Reset { .. } => 3,
            Op::Create { .. } => 14,
            Op::Fork { .. } => 4,
            Op::Drop { .. } => 5,
            Op::Ckpt { .. } => 6,
            Op::Crash { .. } => 7,
            Op::RoundTrip { .. } => 8,
            Op::Migrate { .. } => 9,
            Op::Format { .. } => 10,
            Op::Cold { .. } => 11,
            Op::Save { .. } => 12,
            Op::Soak { .. } => 13,
        }
    }
}

#[derive(Clone, PartialEq, Debug, Serialize, Deserialize)]
pub struct Scenario {
    pub property: String,
    /// sub-check within the property (e.g. "seeded", "sweep", "stageB")
    pub stage: String,
    /// node 0..k-1 exist from the start; forks add nodes with the spec of their source
    pub nodes: Vec<NodeSpec>,
    pub ops: Vec<Op>,
    /// number of worker threads (C05 stage B), 0 = single-threaded
    #[serde(default)]
    pub workers: usize,
}

#[derive(Clone, PartialEq, Debug, Serialize, Deserialize)]
pub struct Violation {
    pub property: String,
    /// what must be preserved while shrinking, e.g. "C04/output-mismatch/Minimum"
    pub class: String,
    /// index into `ops` at which the oracle fired
    pub step: usize,
    pub detail: String,
    pub expected: Vec<String>,
    pub got: Vec<String>,
    pub oracle: String,
}

#[derive(Clone, Debug, Serialize, Deserialize)]
pub struct ReplayFile {
    pub property: String,
    pub class: String,
    pub seed: u64,
    pub run: u64,
    pub minimised: bool,
    pub original_ops: usize,
    pub scenario: Scenario,
    pub violation: Violation,
    pub replay_cmd: String,
    /// build configuration of the harness+library that produced it: "checked" (overflow checks and debug
    /// assertions on) or "shipped" (both off); `replay` re-executes under the same one
    #[serde(default)]
    pub profile: String,
}
