#!/usr/bin/env python3
"""Regenerates /verif/MANIFEST.json (kept in one place so it always validates)."""
import json, os
HERE = os.path.dirname(os.path.dirname(os.path.abspath(__file__)))
na = {
"C01":"output = textbook statistic of the last n inputs: a pure function of the input stream with no schedule, clock, fault, crash or interleaving to search; deterministic simulation has nothing to vary (differential testing/proof territory)",
"C02":"EMA-family outputs are a deterministic fold of the history; pure function of the input stream, nothing for a scheduler or fault injector to decide",
"C03":"oscillator formulas on well-conditioned finite input; pure function of the stream, no schedule/fault/crash dimension",
"C07":"range invariant quantified over inputs only; monitoring it inside simulated runs would be input generation dressed in simulator vocabulary",
"C08":"behaviour on degenerate (flat / zero-flow) windows is a pure function of the window contents; no recovery, ordering or durability claim attached",
"C09":"inequalities between outputs of one deterministic run on one input; no fault or schedule dimension",
"C10":"equality between two pure runs differing only in how the same numbers are passed (bar field vs scalar); no nondeterminism involved",
"C11":"finite table over constructor arguments, accessors, Display and Default; configuration-only, decided by enumeration, not simulation",
"C13":"numerical drift over long streams is a pure function of a (long) input; length is not a fault and there is no schedule",
"C14":"metamorphic scaling/shift relation between two pure runs; no schedule, fault or crash in it",
"C15":"equality between a composite and hand-wired parts on the same input; pure",
"C16":"DataItemBuilder::build is a total function of at most five setter calls; every order of setters is a small finite space to enumerate (model checking), no concurrency or fault in it",
"C19":"trait / auto-trait surface is settled by the type checker; nothing executes, so there is nothing to simulate",
}
checks = {
"C04": dict(
  level="exploration", design="DESIGN.md §4 C04",
  text="Seeded search over (history, reset position or reset storm, continuation) with fault injection - incl. clone / serde copy / live sibling clone before the reset, Default-built subjects, long uptimes, windows to 2e5 slots - plus fixed corpora (all short histories over an 8-symbol alphabet for periods 1..=4, mega windows, huge EMA periods); every post-reset output is compared with a freshly constructed twin of the real code. Sampling evidence, not proof; exhaustive only inside the sweep's small bounds.",
  note="Trusts: the harness executor and comparison (bit-identical, else 1e-12 relative to the natural scale); oracle is the same real code freshly constructed, so defects common to both sides are invisible. Inputs are the f64 values the fault injector can produce (all IEEE classes).",
  technique="deterministic simulation with fault injection: seeded op scheduler (history / reset storm / continuation) + corrupt-feed injector, fresh-twin differential oracle, ddmin-minimised replay file"),
"C05": dict(
  level="exploration", design="DESIGN.md §4 C05",
  text="Seeded search over interleavings of operations (feed, clone, clone_from, create, drop, reset, format) on 2..8 live instances (one thread; then 2..16 real OS threads released one op at a time by a turn token, with migration), a sample of scenarios each in its own fresh process, Miri's seeded pre-emptive scheduler feeding every kind's original and clone concurrently, and a two-process digest comparison; every recorded output must equal a solo replay bit for bit; the harness allocator hands out dirty memory. Sampling evidence; all merges of two 4-op sequences are enumerated for every indicator.",
  note="Trusts: harness scheduler/turn token, Miri's scheduler as the only source of intra-operation pre-emption (small scenarios, finite inputs). Interference that leaves no trace in any output is invisible.",
  technique="deterministic simulation: seeded op-level scheduler over instances/clones/threads (turn-token released OS threads, Miri seeded pre-emption), solo-replay oracle over the recorded history, two-process determinism diff"),
"C06": dict(
  level="exploration", design="DESIGN.md §4 C06",
  text="Simulated node with a simulated disk: checkpoints (bincode of the real serde derives) at seeded and at every-prefix positions, lost checkpoint writes, crashes that discard the in-memory instance, restore (from a byte slice or an io::Read) + journal replay, crash during replay, chained round-trips (bincode, and serde_json where lossless); afterwards every output and period()/Display are compared with the never-serialized shadow for at least sum(periods)+2 ticks. Sampling evidence, exhaustive over checkpoint positions only in the small sweep.",
  note="Trusts: bincode 1.3 as the wire format; harness disk/journal model. Torn or bit-flipped checkpoint bytes are deliberately not injected (the property promises nothing about corrupted input).",
  technique="deterministic simulation with crash/restore fault injection: simulated disk + journal, seeded crash points, lost writes, crash-during-replay; shadow-instance differential oracle"),
"C12": dict(
  level="fault_enumeration", design="DESIGN.md §4 C12",
  text="Every fault value class (NaN, +-inf, +-MAX, subnormal, min positive, +-0, huge, negative, malformed bars, negative/zero volume) is delivered in every cursor state of every indicator for every period up to the stated bound (complete enumeration of that grid), followed by reset/clone/clone_from/Display/Debug/serialize on the poisoned state; plus fixed corpora for windows around 2^16, huge EMA periods and whole-number inputs near 2^53, seeded swarm runs with periods to 4096 and runs past 65536 calls, and (thorough) 2^32+ calls on one instance. Build has overflow checks and debug assertions on. A panic or a stalled run is the violation.",
  note="Trusts: catch_unwind + panic hook; the harness build profile (overflow-checks, debug-assertions). Outputs are not judged. Allocation failure is not injected.",
  technique="deterministic fault injection: complete enumeration of (cursor state x fault value) plus seeded swarm fault sequences, panic/hang oracle"),
"C17": dict(
  level="exploration", design="DESIGN.md §4 C17",
  text="Two replicas on one feed: a veteran that lived through seeded finite faults (spikes x10..x1e6, regime shifts, stalls, duplicates, drops, exact zeros and tiny values, negative prices/volumes, near-overflow giants, uptimes to 1.3e6 ticks quick / 3e6 thorough) and a rookie cold-started at a seeded tick; from n (n+1) ticks after the cold start every output pair must agree within the property's tolerance (bits for comparison-only kinds). Sampling evidence of bounded recovery.",
  note="Trusts: the harness's computation of M, tau(t) and the window-local condition numbers (ratio kinds are skipped on ill-conditioned windows and the skips are counted); SD/Bollinger widths compared as variances. Finite inputs only.",
  technique="deterministic simulation with fault injection: veteran/rookie replicas, cold-restart (state loss) and outlier faults at seeded positions, bounded-recovery oracle against the unfaulted replica"),
"C18": dict(
  level="exploration", design="DESIGN.md §4 C18",
  text="Allocator seam (per-thread counting global allocator) and simulated-disk quota, both set to B = 256 + 64*sum(periods), enforced over seeded long streams of adversarial shapes (to 1e6 ticks quick, 8e6 thorough) with corrupt feeds, periodic resets, clone cycles and mid-stream restores, plus a sweep of every short poisoned prefix followed by long monotone tails: checkpoint size at every early tick and at sparse probes later, live-heap growth after warm-up, transient peaks, clone footprint.",
  note="Trusts: the Rust global-allocator hook as the measure of heap (the crate has no FFI/mmap); harness allocates nothing inside the accounting window (verified: measured growth is 0 bytes today).",
  technique="deterministic simulation with resource faults: memory cap via allocator seam and disk quota via simulated disk over long simulated time and seeded stream shapes"),
}
def entry(pid, c):
    return {
      "property_id": pid,
      "quick_cmd": f"/verif/check {pid} quick",
      "thorough_cmd": f"/verif/check {pid} thorough",
      "evidence_file": f"/verif/evidence/{pid}.json",
      "replay_cmd_template": "/verif/check replay {path}",
      "engine": "tasim",
      "level_claimed": {"category": c["level"], "text": c["text"], "design_ref": c["design"]},
      "level_note": c["note"],
      "technique": c["technique"],
    }
m = {
 "version": 1,
 "setup_cmd": "cd /verif/sim && CARGO_NET_OFFLINE=true cargo build --release --offline && CARGO_NET_OFFLINE=true cargo build --profile shipped --offline && cd /verif/sim-miri && (CARGO_NET_OFFLINE=true cargo +nightly miri setup >/dev/null 2>&1 || true)",
 "hooks": {"guard": "ta_verif_sim",
           "enable": "no hook exists in /repo: every seam is an existing public interface (Next/Reset/Clone/serde) or lives in the harness process; the guard name is reserved only",
           "baseline_off_cmd": "cd /repo && cargo test --workspace --no-fail-fast --offline",
           "source_commits": [], "add_only": True},
 "engines": [{"name": "tasim", "path": "/verif/sim", "serves_properties": sorted(checks),
              "kind_free_text": "seeded deterministic simulator with fault injection around the real ta crate (path dependency on /repo, rebuilt by every check)"}],
 "checks": [entry(k, checks[k]) for k in sorted(checks)],
 "notes": "See DESIGN.md. VERIF_SEED (default 1) seeds every random choice; VERIF_JOBS sets the worker count (results do not depend on it). Known findings: /verif/known_findings.json. Exit 2 = harness error.",
 "not_applicable": [{"property_id": k, "reason": v} for k, v in na.items()],
}
json.dump(m, open(os.path.join(HERE, "MANIFEST.json"), "w"), indent=1)
print("wrote MANIFEST.json with checks:", sorted(checks))
