#!/usr/bin/env python3
"""Regenerates /verif/MANIFEST.json (kept in one place so it always validates)."""
import json, os
HERE = os.path.dirname(os.path.dirname(os.path.abspath(__file__)))
na = {
"C01":"output = textbook statistic of the last n inputs: a pure function of the input stream with no schedule, clock, fault, crash or interleaving to search; deterministic simulation has nothing to vary (differential testing/proof territory)",
"C02":"EMA-family outputs are a deterministic fold of the history; pure function of the input stream, nothing for a scheduler or fault injector to decide",
"C03":"oscillator formulas on well-conditioned finite input; pure function of the stream, no schedule/fault/crash dimension",
"C07":"range invariant quantified over inputs only; monitoring it inside simulated runs would be input generation dressed in simulator vocabulary",
"C08":"behaviour on degenerate (flat / zero-flow) windows is a pure function of the window contents; no recovery, ordering or durability claim attached",
"C09":"inequalities between outputs of one deterministic run on one input; no fault or schedule dimension",
"C10":"equality between two pure runs differing only in how the same numbers are passed (bar field vs scalar); no nondeterminism involved",
"C11":"finite table over constructor arguments, accessors, Display and Default; configuration-only, decided by enumeration, not simulation",
"C13":"numerical drift over long streams is a pure function of a (long) input; length is not a fault and there is no schedule",
"C14":"metamorphic scaling/shift relation between two pure runs; no schedule, fault or crash in it",
"C15":"equality between a composite and hand-wired parts on the same input; pure",
"C16":"DataItemBuilder::build is a total function of at most five setter calls; every order of setters is a small finite space to enumerate (model checking), no concurrency or fault in it",
"C19":"trait / auto-trait surface is settled by the type checker; nothing executes, so there is nothing to simulate",
}
checks = {
"C04": dict(
  level="exploration", design="DESIGN.md §4 C04",
  text="Seeded search over (history, reset position, continuation) with fault injection, plus a fixed sweep of all short histories for periods 1..=4; every post-reset output is compared with a freshly constructed twin of the real code. Sampling evidence, not proof; exhaustive only inside the sweep's small bounds.",
  note="Trusts: the harness executor and comparison (bit-identical, else 1e-12 relative to the natural scale); oracle is the same real code freshly constructed, so defects common to both sides are invisible. Inputs restricted to f64 values the fault injector can produce (all IEEE classes).",
  technique="deterministic simulation with fault injection: seeded op scheduler (history/reset storm/continuation) + corrupt-feed injector, fresh-twin differential oracle, ddmin replay"),
}
def entry(pid, c):
    return {
      "property_id": pid,
      "quick_cmd": f"/verif/check {pid} quick",
      "thorough_cmd": f"/verif/check {pid} thorough",
      "evidence_file": f"/verif/evidence/{pid}.json",
      "replay_cmd_template": "/verif/check replay {path}",
      "engine": "tasim",
      "level_claimed": {"category": c["level"], "text": c["text"], "design_ref": c["design"]},
      "level_note": c["note"],
      "technique": c["technique"],
    }
m = {
 "version": 1,
 "setup_cmd": "cd /verif/sim && CARGO_NET_OFFLINE=true cargo build --release --offline",
 "hooks": {"guard": "ta_verif_sim",
           "enable": "no hook exists in /repo: every seam is an existing public interface (Next/Reset/Clone/serde) or lives in the harness process; the guard name is reserved only",
           "baseline_off_cmd": "cd /repo && cargo test --workspace --no-fail-fast --offline",
           "source_commits": [], "add_only": True},
 "engines": [{"name": "tasim", "path": "/verif/sim", "serves_properties": sorted(checks),
              "kind_free_text": "seeded deterministic simulator with fault injection around the real ta crate (path dependency on /repo, rebuilt by every check)"}],
 "checks": [entry(k, checks[k]) for k in sorted(checks)],
 "notes": "See DESIGN.md. VERIF_SEED (default 1) seeds every random choice; VERIF_JOBS sets the worker count (results do not depend on it). Known findings: /verif/known_findings.json. Exit 2 = harness error.",
 "not_applicable": [{"property_id": k, "reason": v} for k, v in na.items()],
}
json.dump(m, open(os.path.join(HERE, "MANIFEST.json"), "w"), indent=1)
print("wrote MANIFEST.json with checks:", sorted(checks))
