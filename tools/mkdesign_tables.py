#!/usr/bin/env python3
"""Fills the generated tables of DESIGN.md (between <!-- X --> markers) from selftest/results and seeded/*/meta.json."""
import json, os, re, glob, csv
V=os.path.dirname(os.path.dirname(os.path.abspath(__file__)))
def tsv(path):
    if not os.path.exists(path): return []
    return list(csv.DictReader(open(path), delimiter="\t"))
def put(s, key, body):
    return re.sub(r"<!-- %s -->.*?<!-- /%s -->" % (key,key), "<!-- %s -->\n%s\n<!-- /%s -->" % (key, body.replace("\\","\\\\"), key), s, flags=re.S)
s=open(os.path.join(V,"DESIGN.md")).read()
# ---- seeded
rows={}
for r in tsv(os.path.join(V,"selftest/results/seeded-quick.tsv")):
    if r["check"]==r["property"]: rows[r["seed"]]=r
lines=["","| id | breaks | what it needs to manifest | baseline tests | owning quick check | s |","|---|---|---|---|---|---|"]
n=0; caught=0
for d in sorted(glob.glob(os.path.join(V,"seeded/*/meta.json"))):
    m=json.load(open(d)); r=rows.get(m["id"])
    n+=1
    if r:
        ok = r["exit"]=="1"
        caught+=ok
        res=("caught: `%s`" % (r["class"].replace("class=","") or "stage C (Miri)")) if ok else ("missed by quick; " + m["caught_by"] if m.get("caught_by") else ("silent by design: not a violation under the adopted reading (see meta.json)" if m.get("disputed") else "**missed**"))
        note = " (missed when first run; checks strengthened, see below)" if m.get("first_missed") else ""
        lines.append("| %s | %s | %s | %s | %s%s | %s |" % (m["id"], m["property"], m["needs_to_manifest"].replace("|","\\|"), r["baseline_tests"], res, note, r["seconds"]))
    else:
        lines.append("| %s | %s | %s | ? | not run | |" % (m["id"], m["property"], m["needs_to_manifest"].replace("|","\\|")))
lines.append("")
lines.append("%d of %d independently written changes are reported by the owning quick check on the current machinery, each with a replay file that reproduces in a fresh process; of the others one (a 32-bit call counter) needs 2^32 calls and is reported by the thorough tier, and one (C17-g1) is not a violation under the adopted reading of the tolerance." % (caught,n))
s=put(s,"SEEDED_TABLE","\n".join(lines))
# ---- mutants
lines=["","| mutant | breaks | baseline tests | owning quick check | s |","|---|---|---|---|---|"]
for r in tsv(os.path.join(V,"selftest/results/mutants-quick.tsv")):
    if r["check"]!=r["property"]: continue
    base = "pass" if r["baseline_tests"].startswith("pass") else "*fails baseline*"
    res = ("caught: `%s`" % (r["class"].replace("class=","") or "stage C/D")) if r["exit"]=="1" else "**missed**"
    lines.append("| %s | %s | %s | %s | %s |" % (r["mutant"], r["property"], base, res, r["seconds"]))
s=put(s,"MUTANT_TABLE","\n".join(lines))
# ---- benign
rows=tsv(os.path.join(V,"selftest/results/benign-quick.tsv"))
last={}
for r in rows:
    if r.get("check") in ("C04","C05","C06","C12","C17","C18"): last[(r["seed"],r["check"])]=r
prev={}
pf=os.path.join(V,"selftest/results/benign-quick.prev.tsv")
if os.path.exists(pf):
    for r in tsv(pf):
        if r.get("check") in ("C04","C05","C06","C12","C17","C18"): prev[(r["seed"],r["check"])]=r
lines=["","| id | written for | what changed | C04 | C05 | C06 | C12 | C17 | C18 |","|---|---|---|---|---|---|---|---|---|"]
nb=0; bad=0; old=0
for d in sorted(glob.glob(os.path.join(V,"benign/*/meta.json"))):
    m=json.load(open(d)); nb+=1
    cells=[]
    for c in ("C04","C05","C06","C12","C17","C18"):
        r=last.get((m["id"],c))
        if not r and prev.get((m["id"],c)):
            r=prev[(m["id"],c)]; old+=1
            cells.append(("0" if r["exit"]=="0" else "**%s**"%r["exit"])+"†"); bad += r["exit"]!="0"
        elif not r: cells.append("?")
        else:
            cells.append("0" if r["exit"]=="0" else "**%s**"%r["exit"]); bad += r["exit"]!="0"
    lines.append("| %s | %s | %s | %s |" % (m["id"], m["property"], m["what_changed"].replace("|","\\|"), " | ".join(cells)))
lines.append("")
if old==0:
    lines.append("Exit codes of the six quick checks on each of the %d legitimate changes (0 = no alarm): %d non-zero. All %d runs are on the final machinery (after the extensions of rounds 8-9, each check with its shipped-configuration pass)." % (nb,bad,6*nb))
else:
    lines.append("Exit codes of the six quick checks on each of the %d legitimate changes (0 = no alarm): %d non-zero. Cells marked † (%d) are from the full 6 x %d regression run before the extensions of rounds 8-9 (`benign-quick.prev.tsv`); after those extensions the owning check and the three checks whose oracles or operations changed (C06, C17, C18) were re-run on every change, all with the shipped-configuration pass." % (nb,bad,old,nb))
BENIGN="\n".join(lines)
# ---- budgets from evidence (whatever tier was last run) + results/thorough.log if present
lines=["","| check | tier of the committed evidence | scenarios | simulated ticks | distinct situations | wall s |","|---|---|---|---|---|---|"]
for p in ("C04","C05","C06","C12","C17","C18"):
    f=os.path.join(V,"evidence",p+".json")
    if os.path.exists(f):
        e=json.load(open(f)); c=e["coverage"]
        lines.append("| %s | %s | %s | %s | %s | %.1f |" % (p, e["tier"], f"{c['evaluations']:,}", f"{c['simulated_ticks']:,}", f"{c['distinct_nontrivial']:,}", e["wall_s"]))
t=os.path.join(V,"selftest/results/thorough.log")
if os.path.exists(t):
    lines.append(""); lines.append("Thorough tier, last full run (`selftest/results/thorough.log`):"); lines.append(""); lines.append("```")
    lines += [l.rstrip() for l in open(t) if re.match(r"^C\d\d Thorough", l)]
    lines.append("```")
s=put(s,"BUDGET_TABLE","\n".join(lines))
s=put(s,"BENIGN_TABLE",BENIGN)
open(os.path.join(V,"DESIGN.md"),"w").write(s)
print("tables written")
