//! C05 stage C: distinct instances used CONCURRENTLY from several threads under Miri's seeded,
//! pre-emptive scheduler (-Zmiri-many-seeds / -Zmiri-seed, -Zmiri-preemption-rate). Real code of
//! the ta crate, interpreted; any data race or UB Miri sees is a failure as well.
//! Oracle: solo replay computed single-threaded before the threads start, bit-exact
//! (NaN == NaN, since Miri may randomise NaN payloads; only finite positive prices are fed).
//!
//! usage: tasim-miri <workload seed> <threads>

use std::sync::mpsc;
use ta::indicators::*;
use ta::{Close, High, Low, Next, Open, Reset, Volume};

#[derive(Clone, Copy)]
struct Bar {
    o: f64,
    h: f64,
    l: f64,
    c: f64,
    v: f64,
}
impl Open for Bar {
    fn open(&self) -> f64 {
        self.o
    }
}
impl High for Bar {
    fn high(&self) -> f64 {
        self.h
    }
}
impl Low for Bar {
    fn low(&self) -> f64 {
        self.l
    }
}
impl Close for Bar {
    fn close(&self) -> f64 {
        self.c
    }
}
impl Volume for Bar {
    fn volume(&self) -> f64 {
        self.v
    }
}

macro_rules! inds {
    ($( $v:ident($t:ty) => scalar: $s:tt ),* $(,)?) => {
        #[derive(Clone)]
        enum Ind { $( $v($t), )* }
        impl Ind {
            fn bar(&mut self, b: &Bar) -> [f64; 3] {
                match self { $( Ind::$v(i) => conv(Next::<&Bar>::next(i, b)), )* }
            }
            fn scalar(&mut self, x: f64, b: &Bar) -> [f64; 3] {
                match self { $( Ind::$v(i) => inds!(@s $s i x b), )* }
            }
            fn reset(&mut self) {
                match self { $( Ind::$v(i) => i.reset(), )* }
            }
        }
    };
    (@s yes $i:ident $x:ident $b:ident) => { conv(Next::<f64>::next($i, $x)) };
    (@s no $i:ident $x:ident $b:ident) => { conv(Next::<&Bar>::next($i, $b)) };
}

trait Conv {
    fn c(self) -> [f64; 3];
}
impl Conv for f64 {
    fn c(self) -> [f64; 3] {
        [self, 0.0, 0.0]
    }
}
impl Conv for MovingAverageConvergenceDivergenceOutput {
    fn c(self) -> [f64; 3] {
        [self.macd, self.signal, self.histogram]
    }
}
impl Conv for PercentagePriceOscillatorOutput {
    fn c(self) -> [f64; 3] {
        [self.ppo, self.signal, self.histogram]
    }
}
impl Conv for BollingerBandsOutput {
    fn c(self) -> [f64; 3] {
        [self.average, self.upper, self.lower]
    }
}
impl Conv for KeltnerChannelOutput {
    fn c(self) -> [f64; 3] {
        [self.average, self.upper, self.lower]
    }
}
impl Conv for ChandelierExitOutput {
    fn c(self) -> [f64; 3] {
        [self.long, self.short, 0.0]
    }
}
fn conv<T: Conv>(t: T) -> [f64; 3] {
    t.c()
}

inds! {
    Ema(ExponentialMovingAverage) => scalar: yes,
    Sma(SimpleMovingAverage) => scalar: yes,
    Wma(WeightedMovingAverage) => scalar: yes,
    Sd(StandardDeviation) => scalar: yes,
    Mad(MeanAbsoluteDeviation) => scalar: yes,
    Rsi(RelativeStrengthIndex) => scalar: yes,
    Min(Minimum) => scalar: yes,
    Max(Maximum) => scalar: yes,
    Fast(FastStochastic) => scalar: yes,
    Slow(SlowStochastic) => scalar: yes,
    Tr(TrueRange) => scalar: yes,
    Atr(AverageTrueRange) => scalar: yes,
    Macd(MovingAverageConvergenceDivergence) => scalar: yes,
    Ppo(PercentagePriceOscillator) => scalar: yes,
    Cci(CommodityChannelIndex) => scalar: no,
    Er(EfficiencyRatio) => scalar: yes,
    Bb(BollingerBands) => scalar: yes,
    Ce(ChandelierExit) => scalar: no,
    Kc(KeltnerChannel) => scalar: yes,
    Roc(RateOfChange) => scalar: yes,
    Mfi(MoneyFlowIndex) => scalar: no,
    Obv(OnBalanceVolume) => scalar: no,
}

fn make(kind: usize, p: usize) -> Ind {
    let q = p % 3 + 1;
    match kind % 22 {
        0 => Ind::Ema(ExponentialMovingAverage::new(p).unwrap()),
        1 => Ind::Sma(SimpleMovingAverage::new(p).unwrap()),
        2 => Ind::Wma(WeightedMovingAverage::new(p).unwrap()),
        3 => Ind::Sd(StandardDeviation::new(p).unwrap()),
        4 => Ind::Mad(MeanAbsoluteDeviation::new(p).unwrap()),
        5 => Ind::Rsi(RelativeStrengthIndex::new(p).unwrap()),
        6 => Ind::Min(Minimum::new(p).unwrap()),
        7 => Ind::Max(Maximum::new(p).unwrap()),
        8 => Ind::Fast(FastStochastic::new(p).unwrap()),
        9 => Ind::Slow(SlowStochastic::new(p, q).unwrap()),
        10 => Ind::Tr(TrueRange::new()),
        11 => Ind::Atr(AverageTrueRange::new(p).unwrap()),
        12 => Ind::Macd(MovingAverageConvergenceDivergence::new(p, p + q, q).unwrap()),
        13 => Ind::Ppo(PercentagePriceOscillator::new(p, p + q, q).unwrap()),
        14 => Ind::Cci(CommodityChannelIndex::new(p).unwrap()),
        15 => Ind::Er(EfficiencyRatio::new(p).unwrap()),
        16 => Ind::Bb(BollingerBands::new(p, 2.0).unwrap()),
        17 => Ind::Ce(ChandelierExit::new(p, 3.0).unwrap()),
        18 => Ind::Kc(KeltnerChannel::new(p, 2.0).unwrap()),
        19 => Ind::Roc(RateOfChange::new(p).unwrap()),
        20 => Ind::Mfi(MoneyFlowIndex::new(p).unwrap()),
        _ => Ind::Obv(OnBalanceVolume::new()),
    }
}

fn splitmix(x: &mut u64) -> u64 {
    *x = x.wrapping_add(0x9E37_79B9_7F4A_7C15);
    let mut z = *x;
    z = (z ^ (z >> 30)).wrapping_mul(0xBF58_476D_1CE4_E5B9);
    z = (z ^ (z >> 27)).wrapping_mul(0x94D0_49BB_1331_11EB);
    z ^ (z >> 31)
}

#[derive(Clone)]
#[allow(dead_code)]
struct Work {
    kind: usize,
    p: usize,
    scalar: bool,
    reset_at: usize,
    ticks: Vec<Bar>,
}

fn ticks(s: &mut u64, n: usize) -> Vec<Bar> {
    let mut c = 10.0 + (splitmix(s) % 1000) as f64 / 10.0;
    (0..n)
        .map(|_| {
            let o = c;
            c = (c + ((splitmix(s) % 2001) as f64 - 1000.0) / 500.0).max(0.5);
            let (hi, lo) = if o > c { (o, c) } else { (c, o) };
            Bar { o, h: hi + (splitmix(s) % 50) as f64 / 100.0, l: lo - (splitmix(s) % 40) as f64 / 100.0, c, v: (splitmix(s) % 5000) as f64 }
        })
        .collect()
}

/// feed ticks[from..] into `ind`, return output bits
fn feed(ind: &mut Ind, w: &Work, from: usize) -> Vec<[u64; 3]> {
    let mut out = vec![];
    for (j, b) in w.ticks.iter().enumerate().skip(from) {
        if j == w.reset_at {
            ind.reset();
        }
        let o = if w.scalar { ind.scalar(b.c, b) } else { ind.bar(b) };
        out.push([o[0].to_bits(), o[1].to_bits(), o[2].to_bits()]);
    }
    out
}

fn same(a: &[[u64; 3]], b: &[[u64; 3]]) -> bool {
    a.len() == b.len()
        && a.iter().zip(b).all(|(x, y)| (0..3).all(|k| x[k] == y[k] || (f64::from_bits(x[k]).is_nan() && f64::from_bits(y[k]).is_nan())))
}

fn out_bits(o: [f64; 3]) -> [u64; 3] {
    [o[0].to_bits(), o[1].to_bits(), o[2].to_bits()]
}

/// one unit of work for a thread: an instance (fresh, or handed over half-fed) and the ticks to feed it
struct Job {
    label: String,
    ind: Ind,
    scalar: bool,
    reset_at: usize,
    ticks: Vec<Bar>,
    expected: Vec<[u64; 3]>,
}

fn main() {
    let args: Vec<String> = std::env::args().collect();
    let seed: u64 = args.get(1).and_then(|s| s.parse().ok()).unwrap_or(1);
    let threads: usize = args.get(2).and_then(|s| s.parse().ok()).unwrap_or(4);
    let per_thread = if threads <= 4 { 3 } else { 1 };
    let n_ticks = if threads <= 4 { 10 } else { 8 };
    let mut s = seed ^ 0xC05C05;
    let rot = (splitmix(&mut s) % 22) as usize;
    let mut jobs: Vec<Vec<Job>> = (0..threads).map(|_| vec![]).collect();
    // (1) instances owned by one thread from birth: kinds spread over the (thread, slot) grid
    for t in 0..threads {
        for i in 0..per_thread {
            let kind = (rot + t * per_thread + i) % 22;
            let p = 1 + (splitmix(&mut s) % 4) as usize;
            let scalar = splitmix(&mut s) % 2 == 0;
            let reset_at = if splitmix(&mut s) % 3 == 0 { (splitmix(&mut s) % n_ticks as u64) as usize } else { usize::MAX };
            let w = Work { kind, p, scalar, reset_at, ticks: ticks(&mut s, n_ticks) };
            let expected = feed(&mut make(kind, p), &w, 0);
            jobs[t].push(Job { label: format!("own kind {} p {}", kind, p), ind: make(kind, p), scalar, reset_at, ticks: w.ticks, expected });
        }
    }
    // (2) for EVERY kind: an instance is warmed up on the main thread and cloned; the original goes on on
    // one thread, the clone on the next one, with DIFFERENT continuations, at the same time
    let warm = 5;
    let cont = if threads <= 4 { 5 } else { 4 };
    for kind in 0..22 {
        let p = 2 + (splitmix(&mut s) % 3) as usize;
        let scalar = splitmix(&mut s) % 2 == 0;
        let pre = ticks(&mut s, warm);
        let (ca, cb) = (ticks(&mut s, cont), ticks(&mut s, cont));
        let mut orig = make(kind, p);
        let wpre = Work { kind, p, scalar, reset_at: usize::MAX, ticks: pre.clone() };
        let _ = feed(&mut orig, &wpre, 0);
        let clone = orig.clone();
        // expectations from fresh solo replays
        let exp = |c: &Vec<Bar>| -> Vec<[u64; 3]> {
            let mut f = make(kind, p);
            let mut all = pre.clone();
            all.extend(c.iter().cloned());
            let w = Work { kind, p, scalar, reset_at: usize::MAX, ticks: all };
            feed(&mut f, &w, 0)[warm..].to_vec()
        };
        let (ea, eb) = (exp(&ca), exp(&cb));
        let ta = kind % threads;
        let tb = (kind + 1) % threads;
        jobs[ta].push(Job { label: format!("original kind {} p {}", kind, p), ind: orig, scalar, reset_at: usize::MAX, ticks: ca, expected: ea });
        jobs[tb].push(Job { label: format!("clone kind {} p {}", kind, p), ind: clone, scalar, reset_at: usize::MAX, ticks: cb, expected: eb });
    }
    let n_inst: usize = jobs.iter().map(|j| j.len()).sum();
    let (tx, rx) = mpsc::channel::<(usize, bool, String)>();
    let mut handles = vec![];
    for (t, mut my) in jobs.into_iter().enumerate() {
        let tx = tx.clone();
        handles.push(std::thread::spawn(move || {
            // round-robin over the instances of this thread, one tick each
            let longest = my.iter().map(|j| j.ticks.len()).max().unwrap_or(0);
            let mut outs: Vec<Vec<[u64; 3]>> = vec![vec![]; my.len()];
            for j in 0..longest {
                for (i, job) in my.iter_mut().enumerate() {
                    if j >= job.ticks.len() {
                        continue;
                    }
                    if j == job.reset_at {
                        job.ind.reset();
                    }
                    let b = job.ticks[j];
                    let o = if job.scalar { job.ind.scalar(b.c, &b) } else { job.ind.bar(&b) };
                    outs[i].push(out_bits(o));
                }
            }
            for (i, job) in my.iter().enumerate() {
                if !same(&outs[i], &job.expected) {
                    let _ = tx.send((t, false, format!("thread {} {}: concurrent outputs differ from the solo replay", t, job.label)));
                    return;
                }
            }
            let _ = tx.send((t, true, String::new()));
        }));
    }
    drop(tx);
    let mut ok = 0;
    let mut bad = vec![];
    for (_, good, msg) in rx.iter() {
        if good {
            ok += 1;
        } else {
            bad.push(msg);
        }
    }
    for h in handles {
        let _ = h.join();
    }
    if bad.is_empty() && ok == threads {
        println!("MIRI-OK seed={} threads={} instances={} (22 original/clone pairs fed concurrently on different threads)", seed, threads, n_inst);
    } else {
        for m in &bad {
            println!("MIRI-MISMATCH seed={} threads={} {}", seed, threads, m);
        }
        if bad.is_empty() {
            println!("MIRI-MISMATCH seed={} threads={} a worker thread died", seed, threads);
        }
        std::process::exit(1);
    }
}
